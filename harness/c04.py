"""C04 -- Collocator.collocate against CollocProps (TLC oracle): replay of small scenarios under many
configurations, the temporally pre-binned path by inflation, call histories on one Collocator."""
import itertools
import json
import os

import numpy as np

import collmodel as cm
import ring
from vlib.par import pmap
from vlib.tlc import MachineryError

N = 8
EMB = ring.embeddings(N)


def write(p, s):
    with open(p, "w") as f:
        f.write(s)


def gen_cases(ctx, T, maxp, nsample, seed, ks="{0,1,2,4}"):
    d = ctx.tlc_dir("colloc")
    write(os.path.join(d, "MCColloc.tla"), "---- MODULE MCColloc ----\nEXTENDS CollocCases\nmcIs == {0-1, 0, 1, 2, 3}\n====\n")
    write(os.path.join(d, "MCColloc.cfg"),
          "CONSTANTS N = %d T = %d MaxP = %d NSample = %d Ks = %s\nIs <- mcIs\nINIT Init\nNEXT Next\n"
          "INVARIANT SwapInv\nINVARIANT Emit\n" % (N, T, maxp, nsample, ks))
    res = ctx.tlc(d, "MCColloc", "MCColloc.cfg", workers=1, seed=seed, timeout=900)
    cases = list(res.tagged("CASE"))
    if not cases:
        raise MachineryError("no colloc cases")
    return cases


def quarantine(n, pole, T, rng, sparse=False):
    """n points near a pole (>= 80 degrees of arc from every equator ring position), times spread over the window -- over
    all its ticks, or (sparse) over a random half of them, so that time bins need not begin with a point."""
    lat = pole * (88.0 + rng.random(n) * 1.9)
    lon = rng.random(n) * 360.0 - 180.0
    ticks = np.sort(rng.choice(T, size=max(1, T // 2), replace=False)) if sparse else np.arange(T)
    t = np.array([cm.BASE + int(x) * cm.TICK for x in ticks[rng.integers(0, len(ticks), n)]], dtype="datetime64[ns]")
    return t, lat, lon


def expected_of(row):
    I, k, ws, we, E = row
    return sorted([a, b, dtk, c] for a, b, dtk, c in E)


def compare(col, case, row, conf, got, swapped=False):
    I, k, ws, we, E = row
    exp = expected_of(row)
    if swapped:
        exp = sorted([b, a, d, c] for a, b, d, c in exp)
    obs = sorted([p[0], p[1], d, c] for p, d, c in zip(got["pairs"], got["dt"], got["cls"]))
    if got["none"] != (not exp) or obs != exp:
        pe, po = [e[:2] for e in exp], [o[:2] for o in obs]
        if pe != po:
            only11 = pe == [[1, 1]]
            if not po and pe:
                fp = "pairs-lost" + ("-only-first-first" if only11 else "")
            elif set(map(tuple, pe)) < set(map(tuple, po)):
                fp = "extra-pairs"
            elif sorted(po) == sorted([b, a] for a, b in pe) and pe != sorted([b, a] for a, b in pe):
                fp = "pairs-transposed"
            else:
                fp = "wrong-pairs"
        else:
            fp = "wrong-interval-or-distance"
        if conf.get("inflated"):
            fp += "-binned"
        col.violation(fp, {"abstract": {"N": N, "P": case["P"], "S": case["S"], "I": I, "k": k, "ws": ws, "we": we,
                                        "swapped": swapped},
                           "concrete": conf, "expected": exp, "observed": obs if not got["none"] else None,
                           "tlc": {"module": "CollocCases", "oracle": "Pairs"}})
        return False
    return True


def one_call(collocator, P, S, row, conf, rng=None):
    I, k, ws, we, _ = row
    emb = EMB[conf["embedding"]]
    cm.set_tick(conf.get("tick_s", 60))
    try:
        return _one_call(collocator, P, S, row, conf, rng, emb)
    finally:
        cm.set_tick(60)


def _one_call(collocator, P, S, row, conf, rng, emb):
    I, k, ws, we, _ = row
    extraP = extraS = None
    if conf.get("inflated"):
        extraP = quarantine(1001, +1, conf["T"], rng, conf.get("sparse_ticks", False))
        extraS = quarantine(1001, -1, conf["T"], rng, conf.get("sparse_ticks", False))
    # grids whose second pixel is a valid (quarantined) point: only where quarantine is sound (equator embedding, k <= 1)
    q = conf["shape"] in ("grid", "grid2") and conf["embedding"] == "equator" and k <= 1 and conf.get("second_pixel_valid", True)
    dp = cm.dataset(P, emb, conf["shape"], extra=extraP, qpole=+1 if q else None)
    ds = cm.dataset(S, emb, conf["shape"], extra=extraS, qpole=-1 if q else None)
    kw = {"max_interval": cm.interval_arg(I, conf["sp"]), "max_distance": cm.distance_arg(k, N, conf["sp"]),
          "bin_factor": conf["bin_factor"], "magnitude_factor": conf["magnitude_factor"], "leaf_size": conf["leaf_size"]}
    if conf.get("window", True):
        kw["start"], kw["end"] = cm.window_arg(ws, we)
    res = collocator.collocate(dp, ds, **kw)
    got = cm.project(res, N)
    if (conf.get("inflated") or q) and not got["none"]:
        # quarantine points carry id 0 and may never collocate with anything
        if any(a == 0 or b == 0 for a, b in got["pairs"]):
            got["pairs"] = [[-1, -1]]
    struct_ok = True if res is None else cm.compact_check(res)
    return got, struct_ok


def confs_for(n, tier):
    shapes = ["linear", "grid", "timedim", "grid2"]
    out = []
    embs = list(EMB)
    base = {"embedding": embs[n % 3], "shape": shapes[n % 4], "sp": n % 11, "tick_s": [60, 1][(n // 3) % 2], "bin_factor": 1 + n % 2,
            "magnitude_factor": [1, 10][(n // 2) % 2], "leaf_size": [1, 40][(n // 3) % 2]}
    out.append(base)
    if tier != "quick":
        for e in embs:
            for sh in shapes:
                out.append(dict(base, embedding=e, shape=sh, sp=(n + len(out)) % 11, tick_s=[60, 1][len(out) % 2]))
    return out


def replay_case(col, item):
    from typhon.collocations import Collocator
    case, n, tier, rows_per_case = item
    P = [tuple(p) for p in case["P"]]
    S = [tuple(p) for p in case["S"]]
    rows = case["rows"]
    # deterministic subsample of the parameter rows, always containing the boundary-rich ones
    allrows = rows
    rows = sorted(rows, key=lambda r: (len(r[4]) == 0, (r[0] * 7 + r[1] * 3 + r[2] + n) % 11))[:rows_per_case]
    # max_interval = 0 (nothing is closer in time than zero seconds) where the purely spatial search WOULD find pairs
    rows += [r for r in allrows if r[0] == 0 and any(r2[0] == -1 and r2[1:4] == r[1:4] and r2[4] for r2 in allrows)][:1]
    uniq_p = len({p[0] for p in P}) == len(P)
    uniq_s = len({p[0] for p in S}) == len(S)
    for conf in confs_for(n, tier):
        if conf["shape"] == "timedim" and not (uniq_p and uniq_s):
            conf = dict(conf, shape="linear")
        for row in rows:
            I, k, ws, we, E = row
            for swapped in (False, True):
                a, b = (S, P) if swapped else (P, S)
                c = Collocator()
                try:
                    got, struct_ok = one_call(c, a, b, row, conf)
                except Exception as ex:
                    col.violation("collocate-raises-" + type(ex).__name__ + ("-grid" if conf["shape"] == "grid" else ""),
                                  {"abstract": {"N": N, "P": case["P"], "S": case["S"], "I": I, "k": k, "ws": ws, "we": we,
                                                "swapped": swapped}, "concrete": conf, "observed": repr(ex)[:300]})
                    continue
                col.count(1)
                compare(col, case, row, conf, got, swapped)
                if not struct_ok:
                    col.violation("compact-structure", {"abstract": {"P": case["P"], "S": case["S"], "row": row[:4]},
                                                        "concrete": conf, "observed": "invalid indices or unused stored point"})
            if E and (any(e[3] in (k, ) for e in E) or any(e[2] == I - 1 for e in E) or any(p[1] < 0 for p in P + S)
                      or sorted(e[:2] for e in E) == [[1, 1]]):
                col.nontrivial.add((json.dumps(case["P"]), json.dumps(case["S"]), I, k, ws, we))


def replay_inflated(col, item):
    """Same abstract scenario through the temporally pre-binned path (> 10^6 candidate pairs)."""
    from typhon.collocations import Collocator
    case, n, T = item
    rng = np.random.default_rng(1000 + n)
    P = [tuple(p) for p in case["P"]]
    S = [tuple(p) for p in case["S"]]
    rows = [r for r in case["rows"] if r[0] >= 1 and r[1] <= 1]
    # (with bins narrower than max_interval - bin_factor < 1 - the rows whose pairs are furthest apart in time come first:
    # their secondaries lie more than one bin outside the primary's bin)
    far = (lambda r: -max([abs(e[2]) for e in r[4]] or [0])) if n % 5 in (2, 4) else (lambda r: 0)
    rows = sorted(rows, key=lambda r: (len(r[4]) == 0, far(r), (r[0] + r[1] + r[2] + n) % 5))[:2]
    for row in rows:
        conf = {"embedding": "equator", "shape": ["linear", "grid2", "grid"][n % 3], "sp": n % 5, "bin_factor": [1, 2, 0.5, 3, 0.25][n % 5], "magnitude_factor": 10,
                "leaf_size": 40, "inflated": True, "T": T, "sparse_ticks": n % 2 == 1}
        for swapped in (False, True):
            a, b = (S, P) if swapped else (P, S)
            try:
                got, struct_ok = one_call(Collocator(), a, b, row, conf, rng)
            except Exception as ex:
                col.violation("collocate-raises-" + type(ex).__name__ + "-binned",
                              {"abstract": {"P": case["P"], "S": case["S"], "row": row[:4], "swapped": swapped},
                               "concrete": conf, "observed": repr(ex)[:300]})
                continue
            col.count(1)
            col.bump("inflated_calls")
            compare(col, case, row, conf, got, swapped)


# ---- histories on one Collocator (index cache) ------------------------------------------------
FINE_N = 1000000          # a "ring" so large that ring distance = |a - b|: positions in units of 30 m on a meridian


def fine_dataset(points, ids=None):
    """positions in units of 30 m northwards from 80N along the 10E meridian"""
    import xarray as xr
    deg_per_unit = 30.0 / (ring.R_KM * 1000.0) * 180.0 / np.pi
    n = len(points)
    t = cm.times_of(points)
    lat = np.array([80.0 + p[1] * deg_per_unit for p in points])
    lon = np.full(n, 10.0)
    return xr.Dataset({"time": ("obs", t), "lat": ("obs", lat), "lon": ("obs", lon), "id": ("obs", np.arange(1, n + 1))},
                      coords={"obs": np.arange(n)})


def fine_classify(dist_km):
    units = dist_km * 1000.0 / 30.0
    n = int(round(units))
    return n if abs(units - n) < 0.02 else -1


def record_history(rng, tid):
    """One Collocator, 3-5 calls over a pool of datasets; within the fine-scale family datasets are np.allclose
    without being equal, which is what makes a stale cached index observable."""
    from typhon.collocations import Collocator
    c = Collocator()
    calls = []
    fine = rng.random() < 0.6
    if fine:
        k = 333                                         # threshold (333.5 units = 10.005 km) sits mid-gap
        pool = [[(0, 0)], [(0, 332)], [(0, 334)], [(0, 1)], [(0, 335), (1, 331)], [(0, 0), (1, 2)]]
        # the caller keeps its dataset objects and OVERWRITES their arrays in place between the calls (per side and length)
        live = {}
        def reuse(side, pts):
            fresh = fine_dataset(pts)
            key = (side, len(pts))
            if key not in live or rng.random() < 0.3:
                live[key] = fresh
                return fresh
            old = live[key]
            for v in ("time", "lat", "lon", "id"):
                old[v].values[:] = fresh[v].values
            return old
        for _ in range(rng.choice([3, 4, 5])):
            P = rng.choice(pool)
            S = rng.choice(pool)
            I = rng.choice([-1, 2, 3])
            base = {"P": [list(p) for p in P], "S": [list(p) for p in S], "I": I, "k": k, "ws": 0, "we": 5}
            try:
                kw = {"max_interval": cm.interval_arg(I, 0), "max_distance": (k + 0.5) * 0.030,
                      "magnitude_factor": rng.choice([1, 10])}
                res = c.collocate(reuse("P", P), reuse("S", S), **kw)
                got = cm.project(res, FINE_N)
                if not got["none"]:
                    got["cls"] = [fine_classify(float(d)) for d in res["Collocations/distance"].values]
                calls.append(dict(base, ok=True, **got))
            except Exception as ex:
                calls.append(dict(base, ok=False, none=True, pairs=[], dt=[], cls=[], err=repr(ex)[:200]))
        return {"tid": tid, "N": FINE_N, "calls": calls, "concrete": {"family": "fine-scale 30 m units at 80N"}}
    emb = EMB[rng.choice(list(EMB))]
    pool = []
    for _ in range(4):
        pool.append([(rng.randrange(0, 5), rng.choice([-1] + list(range(N)))) for _ in range(rng.choice([1, 2, 3, 12]))])
    for _ in range(rng.choice([3, 4, 5])):
        P, S = rng.choice(pool), rng.choice(pool)
        I, k = rng.choice([-1, 1, 2, 3]), rng.choice([0, 1, 2])
        ws, we = rng.choice([(0, 4), (1, 3)])
        base = {"P": [list(p) for p in P], "S": [list(p) for p in S], "I": I, "k": k, "ws": ws, "we": we}
        try:
            kw = {"max_interval": cm.interval_arg(I, 0), "max_distance": cm.distance_arg(k, N, 0),
                  "magnitude_factor": rng.choice([1, 10]), "leaf_size": rng.choice([1, 40])}
            kw["start"], kw["end"] = cm.window_arg(ws, we)
            res = c.collocate(cm.dataset(P, emb), cm.dataset(S, emb), **kw)
            calls.append(dict(base, ok=True, **cm.project(res, N)))
        except Exception as ex:
            calls.append(dict(base, ok=False, none=True, pairs=[], dt=[], cls=[], err=repr(ex)[:200]))
    return {"tid": tid, "N": N, "calls": calls, "concrete": {"family": "ring"}}


def record_cloud(rng, tid):
    """Direction B on larger random clouds (50-300 points) clustered on the ring."""
    from typhon.collocations import Collocator
    emb = EMB[rng.choice(list(EMB))]
    T = 30
    def cloud(n):
        return [(rng.randrange(0, T), rng.choice([-1] + list(range(N)) * 3)) for _ in range(n)]
    P, S = cloud(rng.choice([1, 20, 60, 150])), cloud(rng.choice([1, 20, 60, 150]))
    I, k = rng.choice([-1, 1, 2, 5]), rng.choice([0, 1, 2])
    ws, we = rng.choice([(0, T - 1), (3, 20)])
    base = {"P": [list(p) for p in P], "S": [list(p) for p in S], "I": I, "k": k, "ws": ws, "we": we}
    try:
        kw = {"max_interval": cm.interval_arg(I, tid), "max_distance": cm.distance_arg(k, N, tid),
              "bin_factor": rng.choice([1, 2, 4]), "leaf_size": rng.choice([1, 40])}
        kw["start"], kw["end"] = cm.window_arg(ws, we)
        res = Collocator().collocate(cm.dataset(P, emb, rng.choice(["linear", "grid"])), cm.dataset(S, emb), **kw)
        call = dict(base, ok=True, **cm.project(res, N))
    except Exception as ex:
        call = dict(base, ok=False, none=True, pairs=[], dt=[], cls=[], err=repr(ex)[:200])
    return {"tid": tid, "N": N, "calls": [call], "concrete": {"family": "cloud"}}


def validate(ctx, recs, label):
    tdir = ctx.tmpdir()
    path = os.path.join(tdir, label + ".ndjson")
    with open(path, "w") as f:
        for r in recs:
            f.write(json.dumps(r) + "\n")
    d = ctx.tlc_dir("colloc")
    res = ctx.tlc(d, "CollocTrace", "CollocTrace.cfg", workers=1, env={"TRACE_FILE": path}, timeout=1500)
    acc = {t[0] for t in res.tuples("ACCEPT")}
    rej = {t[0]: t[1] for t in res.tuples("REJECT")}
    if len(acc) + len(rej) != len(recs):
        raise MachineryError("trace verdicts not total (%s)" % label)
    ctx.traces += len(acc)
    ctx.count(sum(len(r["calls"]) for r in recs))
    by_tid = {r["tid"]: r for r in recs}
    for tid, kk in sorted(rej.items()):
        r = by_tid[tid]
        c = r["calls"][kk - 1]
        fam = r["concrete"]["family"].split()[0]
        fp = "history-%s-call%s" % (fam, "" if kk == 1 else "-after-earlier-calls") if label == "history" else "cloud"
        ctx.violation("trace-" + fp + ("" if c["ok"] else "-raises"),
                      {"abstract": {"N": r["N"], "history_so_far": r["calls"][:kk]}, "concrete": r["concrete"],
                       "tlc": {"module": "CollocTrace", "first_unexplained_call": kk}})
    return path


def subsecond(col, seed):
    """Time stamps with a sub-second part: one side of a tick-aligned scenario is shifted by a fraction of a second and
    max_interval is placed in the gap the shift opens (I ticks + 3/4 s).  The pair law of CollocProps - |t_p - t_s| <
    max_interval, strictly - is evaluated on the exact rational times; with a shift of half a second every |dt| is a whole
    number of ticks +- 1/2 s, at least 1/4 s away from the threshold on either side."""
    import random
    from fractions import Fraction as F
    from typhon.collocations import Collocator
    rng = random.Random(seed)
    emb = ring.embeddings(8)[rng.choice(["equator", "meridian", "tilted"])]
    P = [(rng.randrange(0, 6), rng.randrange(8)) for _ in range(rng.choice([3, 8, 20]))]
    S = [(rng.randrange(0, 6), rng.randrange(8)) for _ in range(rng.choice([3, 8, 20]))]
    I = rng.choice([1, 2, 3])
    shift_side, shift_ms = rng.choice([("P", -500), ("S", -500), ("P", 500), ("S", 500)])
    dp, ds = cm.dataset(P, emb), cm.dataset(S, emb)
    (dp if shift_side == "P" else ds)["time"].values[:] += np.timedelta64(shift_ms, "ms")
    thr = F(I * cm.TICK_S) + F(3, 4)
    sh = F(shift_ms, 1000)
    exp = sorted([i + 1, j + 1] for i, p in enumerate(P) for j, q in enumerate(S) if p[1] == q[1]
                 and abs((p[0] - q[0]) * cm.TICK_S + (sh if shift_side == "P" else -sh)) < thr)
    rep = {"abstract": {"P": P, "S": S, "I_ticks": I, "shift": [shift_side, shift_ms], "max_interval_s": float(thr)}}
    try:
        res = Collocator().collocate(dp, ds, max_interval=float(thr), max_distance=cm.distance_arg(0, 8, 0))
    except Exception as ex:
        col.violation("collocate-raises-" + type(ex).__name__ + "-subsecond", dict(rep, observed=repr(ex)[:300]))
        return
    col.count(1)
    if res is None:
        got = []
    else:
        pr = res["Collocations/pairs"].values
        got = sorted([int(a), int(b)] for a, b in zip(res["primary/id"].values[pr[0]], res["secondary/id"].values[pr[1]]))
    if got != exp:
        missing = [x for x in exp if x not in got]
        col.violation("subsecond-pairs-" + ("missing" if missing else "surplus"), dict(rep, expected=exp, observed=got))
    elif exp:
        col.nontrivial.add(("subsecond", seed))


def run(ctx):
    quick = ctx.tier == "quick"
    ctx.rule = ("TLC enumerates pairs of small point datasets (<=3 points, <<tick, ring position or NaN>>) and the oracle "
                "pair set with |dt| and distance class for every (max_interval, radius class, window) of the bound; each is "
                "replayed on Collocator.collocate (both argument orders, linear / time-dimension / scan-line grid datasets, "
                "3 great-circle embeddings, threshold spellings, bin_factor, magnitude_factor, leaf_size), a subset again "
                "inflated by >1000 far-away points per side to force the temporally pre-binned path; call histories on one "
                "Collocator and larger random clouds are validated by CollocTrace.tla. Non-trivial: scenarios with a pair "
                "exactly at the distance class or at |dt| = I-1, a NaN point, or (first, first) as the only pair.")
    # Design => Props for the two mechanisms between the spatial index and the result
    d = ctx.tlc_dir("colloc")
    write(os.path.join(d, "MCBin.cfg"), "CONSTANTS T = %d MaxP = %d Is = {1, 2} BFs = {1, 2%s} FullNear = %s\nSPECIFICATION Spec\n"
          "INVARIANT Complete\nINVARIANT NoDuplicates\nINVARIANT NeverInvents\n" % ((4, 2, "", "FALSE") if quick else (6, 3, ", 3", "TRUE")))
    ctx.tlc(d, "BinningDesign", "MCBin.cfg", workers=16, timeout=3000)
    write(os.path.join(d, "MCIdxA.cfg"), "CONSTANTS Datasets = {1,2,3,4} MF = 10 MaxCalls = %d\nSize <- mcSize\nSameClass <- mcExact\n"
          "SPECIFICATION Spec\nINVARIANT IndexFresh\nINVARIANT RowsRight\n" % (3 if quick else 4))
    ctx.tlc(d, "MCIdx", "MCIdxA.cfg", workers=4, timeout=600)
    write(os.path.join(d, "MCIdxB.cfg"), "CONSTANTS Datasets = {1,2,3,4} MF = 10 MaxCalls = 3\nSize <- mcSize\nSameClass <- mcAllclose\n"
          "SPECIFICATION Spec\nINVARIANT IndexFresh\n")
    ctx.tlc(d, "MCIdx", "MCIdxB.cfg", workers=4, must_hold=False, timeout=600)
    ctx.notes["index_cache_design"] = ("with an exact comparison the cached tree always holds the points it is queried for; with an "
                                       "np.allclose-like comparison TLC finds the stale-index history (expected counterexample)")
    cases = gen_cases(ctx, 5, 2, 14 if quick else 25, ctx.seed)
    cases += gen_cases(ctx, 5, 3, 8 if quick else 25, ctx.seed + 1)
    rows_per_case = 5 if quick else 8
    items = [(c, n, ctx.tier, rows_per_case) for n, c in enumerate(cases)]
    pmap(ctx, replay_case, items, chunk=4)
    ctx.traces += len(items)
    ctx.sample({"P": cases[0]["P"], "S": cases[0]["S"], "rows": cases[0]["rows"][:2]})
    infl = [(c, n, 5) for n, c in enumerate(cases) if any(r[4] and r[0] >= 1 and r[1] <= 1 for r in c["rows"])]
    infl = infl[:24] if quick else infl[:400]
    pmap(ctx, replay_inflated, infl, chunk=2)
    pmap(ctx, subsecond, [ctx.seed * 1000 + i for i in range(40 if quick else 600)], chunk=5)
    if not ctx.notes.get("inflated_calls") and not ctx.violations:
        raise MachineryError("the pre-binned path was never exercised")
    n_hist, n_cloud = (60, 30) if quick else (600, 300)
    recs = [record_history(ctx.rng, tid) for tid in range(1, n_hist + 1)]
    path = validate(ctx, recs, "history")
    clouds = [record_cloud(ctx.rng, tid) for tid in range(1, n_cloud + 1)]
    validate(ctx, clouds, "cloud")
    # binding demonstration
    good = next((r for r in recs if any(c["ok"] and c["pairs"] for c in r["calls"])), None)
    if good is not None:
        bad = json.loads(json.dumps(good))
        for c in bad["calls"]:
            if c["ok"] and c["pairs"]:
                c["dt"][0] += 1
                break
        tdir = ctx.tmpdir()
        p = os.path.join(tdir, "corrupt.ndjson")
        write(p, json.dumps(bad) + "\n")
        d = ctx.tlc_dir("colloc")
        res = ctx.tlc(d, "CollocTrace", "CollocTrace.cfg", workers=1, env={"TRACE_FILE": p})
        if not list(res.tuples("REJECT")):
            raise MachineryError("binding demonstration failed: corrupted colloc trace accepted")
        ctx.notes["binding_demo"] = "changing one recorded interval by one tick makes CollocTrace reject the history"
