#!/venv/bin/python
"""bin/check <Cnn> [--tier quick|thorough] [--replay path]"""
import argparse
import importlib
import os
import sys
import traceback
import warnings

warnings.simplefilter("ignore")
HERE = os.path.dirname(os.path.abspath(__file__))
sys.path.insert(0, HERE)
REPO = os.environ.get("VERIF_REPO", "/repo")      # selftest points this at a mutated scratch copy
sys.path.insert(0, REPO)
os.environ["PYTHONPATH"] = REPO + os.pathsep + HERE + os.pathsep + os.environ.get("PYTHONPATH", "")
os.environ.setdefault("PYTHONHASHSEED", "0")
os.environ.setdefault("TYPHON_VERIF", "1")

import logging
logging.disable(logging.CRITICAL)          # typhon reports progress through logger.error
from vlib.ctx import Ctx  # noqa: E402
from vlib.tlc import MachineryError  # noqa: E402


def main():
    ap = argparse.ArgumentParser()
    ap.add_argument("pid")
    ap.add_argument("--tier", default=os.environ.get("VERIF_TIER", "quick"))
    ap.add_argument("--replay")
    a = ap.parse_args()
    seed = int(os.environ.get("VERIF_SEED", "20260926"))
    import typhon
    if not os.path.abspath(typhon.__file__).startswith(os.path.abspath(REPO) + os.sep):
        print("MACHINERY-ERROR %s: typhon imported from %s, not from %s" % (a.pid, typhon.__file__, REPO))
        sys.exit(2)
    mod = importlib.import_module(a.pid.lower())
    ctx = Ctx(a.pid, a.tier, seed)
    try:
        if a.replay:
            # replay files are self-describing records for the reader (abstract scenario, concretisation, expected /
            # observed projections); re-running one scenario in isolation is not implemented: show it and re-run the check
            print(open(a.replay).read())
        mod.run(ctx)
        rc = ctx.finish()
    except MachineryError as e:
        print("MACHINERY-ERROR %s: %s" % (a.pid, e))
        sys.exit(2)
    except Exception:
        traceback.print_exc()
        print("MACHINERY-ERROR %s: harness exception" % a.pid)
        sys.exit(2)
    finally:
        ctx.cleanup()
    sys.exit(rc)


if __name__ == "__main__":
    main()
