"""C08 (partial) -- spectral unit converters, Rayleigh-Jeans pair, spectral-density converters."""
import json

import numpy as np

from numlib import allclose, close, fl, patched
from vlib.par import pmap
from vlib.tlc import MachineryError

UNDECIDED = ["planck: positivity, monotonicity in T, the Rayleigh-Jeans bound and limit, and radiance2planckTb inverting it (exp/log); "
             "decided for planck*: the Jacobian relation between the three forms and the broadcast shape of every combination",
             "snell / fresnel at angles whose sine and cosine are not both rational, and for complex n2 at oblique incidence"]


def arr(seq):
    return np.array([fl(x) for x in seq])


def arr2(rows):
    return np.array([[fl(x) for x in r] for r in rows])


def replay(col, case):
    import typhon.constants as C
    from typhon.physics import em
    c, k = fl(case["c"]), fl(case["k"])
    fg = arr(case["fg"])
    spec = arr2(case["spec"])
    rep = {"abstract": {"c": case["c"], "k": case["k"], "grid": case["fg"]}}
    with patched(C, speed_of_light=c, boltzmann=k):
        # "not effective" only if the functions still answer with the REAL constants
        try:
            canary = not close(em.frequency2wavelength(2.0), 299792458.0 / 2.0, 1e-9) and \
                not close(em.rayleighjeans(1.0, 1.0), 2 * 1.380649e-23 / 299792458.0 ** 2, 1e-6)
        except Exception:
            canary = True
        if not canary:
            col.bump("standin_constants_not_effective")
            return
        def chk(label, fn, want, *a):
            keep = [np.array(v, copy=True) for v in a]
            try:
                got = fn(*a)
            except Exception as ex:
                col.violation(label + "-raises-" + type(ex).__name__, dict(rep, observed=repr(ex)[:200]))
                return None
            col.count(1)
            if any(not np.array_equal(kv, np.asarray(v)) for kv, v in zip(keep, a)):
                col.violation(label + "-overwrites-input", dict(rep))
            if not allclose(got, want):
                col.violation(label + "-wrong-value", dict(rep, expected=np.asarray(want).tolist(), observed=np.asarray(got).tolist()))
            return got
        chk("frequency2wavelength", em.frequency2wavelength, arr(case["f2l"]), fg)
        chk("wavelength2frequency", em.wavelength2frequency, arr(case["f2l"]), fg)        # same map c/x
        chk("frequency2wavenumber", em.frequency2wavenumber, arr(case["f2n"]), fg)
        chk("wavenumber2frequency", em.wavenumber2frequency, arr(case["n2f"]), fg)
        chk("wavelength2wavenumber", em.wavelength2wavenumber, arr(case["l2n"]), fg)
        chk("wavenumber2wavelength", em.wavenumber2wavelength, arr(case["l2n"]), fg)
        chk("rayleighjeans", em.rayleighjeans, arr(case["rj"]), fg, 300.0)
        chk("rayleighjeans_wavelength", em.rayleighjeans_wavelength, arr(case["rjl"]), fg, 300.0)
        chk("radiance2rayleighjeansTb", em.radiance2rayleighjeansTb, arr(case["rjtb"]), fg, 7.0)
        # whole-number grid values handed over as int32 arrays: same values (no arithmetic in 32-bit integers)
        whole = np.array([v for v in fg if float(v).is_integer()])
        if whole.size:
            wi = whole.astype("int32")
            for name, fn in (("frequency2wavelength", em.frequency2wavelength), ("frequency2wavenumber", em.frequency2wavenumber),
                             ("wavenumber2frequency", em.wavenumber2frequency), ("wavelength2wavenumber", em.wavelength2wavenumber),
                             ("wavenumber2wavelength", em.wavenumber2wavelength), ("wavelength2frequency", em.wavelength2frequency)):
                try:
                    a_f, a_i = np.asarray(fn(whole), dtype=float), np.asarray(fn(wi), dtype=float)
                    col.count(1)
                    if a_f.shape != a_i.shape or not np.all(np.abs(a_f - a_i) <= 1e-12 * np.abs(a_f)):
                        col.violation(name + "-differs-for-int32-input", dict(rep, expected=a_f.tolist(), observed=a_i.tolist()))
                except Exception as ex:
                    col.violation(name + "-raises-" + type(ex).__name__ + "-int32", dict(rep, observed=repr(ex)[:200]))
        # frequencies 10^9 times the grid values given as Python integers / floats / arrays (RjHomogeneous: the radiance
        # scales by 10^18, the brightness temperature by 10^-18)
        for i, f in enumerate(fg):
            big = fl(case["fg"][i]) * 1e9
            if big != int(big):
                continue
            want_rj, want_tb = fl(case["rj"][i]) * 1e18, fl(case["rjtb"][i]) * 1e-18
            for label, arg in (("python-int", int(big)), ("float", float(big)), ("float-array", np.array([big, big]))):
                for name, fn, second, want in (("rayleighjeans", em.rayleighjeans, 300.0, want_rj),
                                               ("radiance2rayleighjeansTb", em.radiance2rayleighjeansTb, 7.0, want_tb)):
                    try:
                        got = np.asarray(fn(arg, second), dtype=float)
                    except Exception as ex:
                        col.violation("%s-raises-%s-%s" % (name, type(ex).__name__, label), dict(rep, f=big, observed=repr(ex)[:200]))
                        continue
                    col.count(1)
                    if not np.all(np.abs(got - want) <= 1e-12 * abs(want)):
                        col.violation("%s-wrong-value-at-GHz-%s" % (name, label), dict(rep, f=big, expected=want, observed=got.tolist()))
        # scalar round trips (the TLC-checked inverse laws, evaluated by the real functions)
        for f in fg:
            for a, b in ((em.frequency2wavelength, em.wavelength2frequency), (em.frequency2wavenumber, em.wavenumber2frequency),
                         (em.wavelength2wavenumber, em.wavenumber2wavelength)):
                if not close(b(a(f)), f, 1e-11) or not close(a(b(f)), f, 1e-11):
                    col.violation("unit-converters-not-inverse", dict(rep, pair=[a.__name__, b.__name__]))
            if not close(em.radiance2rayleighjeansTb(f, em.rayleighjeans(f, 250.0)), 250.0, 1e-11):
                col.violation("rayleighjeans-not-inverted", dict(rep, f=float(f)))
        # spectral densities: 2-d (grid x 2 columns), 1-d (first column) and 3-d (grid x 2 x 1)
        for key, fn in (("hz2m", em.perfrequency2perwavelength), ("m2hz", em.perwavelength2perfrequency),
                        ("hz2n", em.perfrequency2perwavenumber), ("n2hz", em.perwavenumber2perfrequency)):
            want_spec, want_grid = arr2(case[key][0]), arr(case[key][1])
            for shape in ("2d", "1d", "3d"):
                s_in = spec if shape == "2d" else spec[:, 0] if shape == "1d" else spec[:, :, None]
                w = want_spec if shape == "2d" else want_spec[:, 0] if shape == "1d" else want_spec[:, :, None]
                a_spec, a_grid = s_in.copy(), fg.copy()
                try:
                    got_spec, got_grid = fn(a_spec, a_grid)
                except Exception as ex:
                    col.violation(key + "-raises-" + type(ex).__name__ + "-" + shape, dict(rep, observed=repr(ex)[:200]))
                    continue
                col.count(1)
                if not np.array_equal(a_spec, s_in) or not np.array_equal(a_grid, fg):
                    # g(f(B)) = B is a statement about the caller's B: it must still be what it was
                    col.violation("density-%s-overwrites-input-%s" % (key, shape), dict(rep))
                # the caller goes on with the SAME grid object, doubled in place (exact in binary): the answer is the one a
                # fresh pair of arrays with these values gets
                try:
                    a_grid *= 2.0
                    again = fn(a_spec, a_grid)
                    fresh = fn(a_spec.copy(), a_grid.copy())
                    if not (np.array_equal(np.asarray(again[0]), np.asarray(fresh[0])) and np.array_equal(np.asarray(again[1]), np.asarray(fresh[1]))):
                        col.violation("density-%s-remembers-an-earlier-grid-%s" % (key, shape),
                                      dict(rep, expected=np.asarray(fresh[0]).tolist(), observed=np.asarray(again[0]).tolist()))
                except Exception as ex:
                    col.violation(key + "-raises-" + type(ex).__name__ + "-second-call-" + shape, dict(rep, observed=repr(ex)[:200]))
                if not allclose(got_spec, w) or not allclose(got_grid, want_grid):
                    kind = "grid-not-reversed" if allclose(np.asarray(got_grid)[::-1], want_grid) else "wrong-value"
                    col.violation("density-%s-%s-%s" % (key, kind, shape), dict(rep, expected=[w.tolist(), want_grid.tolist()],
                                                                               observed=[np.asarray(got_spec).tolist(), np.asarray(got_grid).tolist()]))
        # mutual inverses
        a, g = em.perfrequency2perwavelength(spec.copy(), fg.copy())
        b, g2 = em.perwavelength2perfrequency(a, g)
        d, g3 = em.perfrequency2perwavenumber(spec.copy(), fg.copy())
        e, g4 = em.perwavenumber2perfrequency(d, g3)
        if not (allclose(b, spec, 1e-11) and allclose(g2, fg, 1e-11) and allclose(e, spec, 1e-11) and allclose(g4, fg, 1e-11)):
            col.violation("density-converters-not-inverse", dict(rep))
    col.nontrivial.add(json.dumps([case["c"], case["k"], case["fg"]]))


def replay_planck_forms(col, cases):
    """The three spellings of the Planck function describe ONE spectrum: the Jacobian factors f^2/c and c between them are
    the rational laws of EmUnitsProps (RjLaws / DensityLaws); here both sides are evaluated by the real functions, for
    scalars, arrays and every broadcast combination of frequency and temperature (the result has the broadcast shape)."""
    import typhon.constants as C
    from typhon.physics import em
    c = C.speed_of_light
    fs = sorted({fl(f) * 1e10 for case in cases for f in case["fg"]})
    f1 = np.array(fs)
    T1 = np.array([2.7, 77.0, 300.0, 6000.0])
    combos = [("scalar-scalar", f1[2], T1[2]), ("array-scalar", f1, T1[2]), ("scalar-array", f1[1], T1),
              ("same-shape", f1[:4], T1), ("column-row", f1[:, None], T1[None, :]), ("row-column", f1[None, :], T1[:, None]),
              ("1d-against-2d", f1, np.tile(T1[:, None], (1, len(f1)))), ("2d-against-1d", np.tile(f1[None, :], (3, 1)), 250.0 + np.arange(len(f1)))]
    for label, f, T in combos:
        rep = {"abstract": {"combination": label, "f_shape": list(np.shape(f)), "T_shape": list(np.shape(T))}}
        want_shape = np.broadcast(f, T).shape
        try:
            keep = [np.array(f, copy=True), np.array(T, copy=True)]
            B = np.asarray(em.planck(f, T))
            Bl = np.asarray(em.planck_wavelength(c / np.asarray(f), T))
            Bn = np.asarray(em.planck_wavenumber(np.asarray(f) / c, T))
            Tb = np.asarray(em.radiance2planckTb(f, B))
        except Exception as ex:
            col.violation("planck-raises-%s-%s" % (type(ex).__name__, label), dict(rep, observed=repr(ex)[:200]))
            continue
        col.count(3)
        if not (np.array_equal(keep[0], np.asarray(f)) and np.array_equal(keep[1], np.asarray(T))):
            col.violation("planck-overwrites-input-" + label, rep)
        if B.shape != want_shape or Bl.shape != want_shape or Bn.shape != want_shape or Tb.shape != want_shape:
            col.violation("planck-wrong-shape-" + label, dict(rep, expected=list(want_shape), observed=[list(B.shape), list(Bl.shape), list(Bn.shape)]))
            continue
        ff = np.broadcast_to(np.asarray(f, dtype=float), want_shape)
        if not np.all(np.abs(Bl - B * ff ** 2 / c) <= 1e-12 * np.abs(Bl)) or not np.all(np.abs(Bn - c * B) <= 1e-12 * np.abs(Bn)):
            col.violation("planck-forms-disagree-" + label, dict(rep, observed={"wavelength_form": Bl.ravel()[:3].tolist(),
                                                                                 "frequency_form_times_f2_over_c": (B * ff ** 2 / c).ravel()[:3].tolist()}))
    # with the REAL constants: whole-number wavenumbers / spectra as int32 arrays give the values of the float call
    wn = np.array([1, 2, 5, 10, 15], dtype="int32")
    for name, fn in (("wavenumber2frequency", em.wavenumber2frequency), ("wavenumber2wavelength", em.wavenumber2wavelength),
                     ("frequency2wavenumber", em.frequency2wavenumber), ("frequency2wavelength", em.frequency2wavelength)):
        try:
            a_f, a_i = np.asarray(fn(wn.astype(float)), dtype=float), np.asarray(fn(wn), dtype=float)
            col.count(1)
            if a_f.shape != a_i.shape or not np.all(np.abs(a_f - a_i) <= 1e-12 * np.abs(a_f)):
                col.violation(name + "-differs-for-int32-input", {"abstract": {"values": wn.tolist()}, "expected": a_f.tolist(), "observed": a_i.tolist()})
        except Exception as ex:
            col.violation(name + "-raises-" + type(ex).__name__ + "-int32", {"abstract": {"values": wn.tolist()}, "observed": repr(ex)[:200]})
    try:
        sp_i = np.array([[1, 2], [3, 4], [5, 6]], dtype="int32")
        grid = np.array([1.0e11, 2.0e11, 4.0e11])
        a_f = em.perfrequency2perwavenumber(sp_i.astype(float), grid.copy())
        a_i = em.perfrequency2perwavenumber(sp_i, grid.copy())
        col.count(1)
        if not np.all(np.abs(np.asarray(a_f[0], dtype=float) - np.asarray(a_i[0], dtype=float)) <= 1e-12 * np.abs(np.asarray(a_f[0], dtype=float))):
            col.violation("perfrequency2perwavenumber-differs-for-int32-input", {"abstract": {"spectrum": sp_i.tolist()},
                                                                                 "expected": np.asarray(a_f[0]).tolist(), "observed": np.asarray(a_i[0]).tolist()})
    except Exception as ex:
        col.violation("perfrequency2perwavenumber-raises-" + type(ex).__name__ + "-int32", {"observed": repr(ex)[:200]})
    col.nontrivial.add("planck-forms")


def replay_near_critical(col, cases):
    """SnellNearCritical: sines a few millionths from the critical value (and identical media near grazing incidence)."""
    from typhon.physics import em
    for c in cases:
        if c["critical"]:
            continue
        ratio = fl(c["ratio"])
        th = float(np.degrees(np.arcsin(fl(c["s1"]))))
        for n2 in (1.0, 2.0):
            n1 = ratio * n2
            rep = {"abstract": {"n1": n1, "n2": n2, "sin_theta1": c["s1"], "n1_sin_theta1_over_n2": c["s2"]}}
            for label, args in (("scalar", (n1, n2, th)), ("array", (np.array([n1, n1]), np.array([n2, n2]), th))):
                try:
                    got = np.asarray(em.snell(*args), dtype=float).ravel()
                except Exception as ex:
                    col.violation("snell-raises-%s-near-critical" % type(ex).__name__, dict(rep, observed=repr(ex)[:200]))
                    continue
                col.count(1)
                if c["reflected"]:
                    if not np.all(np.isnan(got)):
                        col.violation("snell-no-nan-just-beyond-the-critical-angle", dict(rep, observed=got.tolist()))
                elif np.any(np.isnan(got)) or np.max(np.abs(np.sin(np.deg2rad(got)) - fl(c["s2"]))) > 1e-11:
                    col.violation("snell-law-violated-just-below-the-critical-angle", dict(rep, expected_sin_theta2=fl(c["s2"]),
                                                                                          observed_theta2=got.tolist()))
        if c["near"]:
            col.nontrivial.add(json.dumps([c["s1"], c["ratio"]]))


def theta_of(s1):
    return float(np.degrees(np.arcsin(fl(s1))))


def replay_snell(col, cases):
    """All SnellProps cases at once: scalar calls, then the same catalogue as arrays / broadcast combinations."""
    from typhon.physics import em
    TOL = 1e-11
    def sin_of(theta2):
        return np.sin(np.deg2rad(np.asarray(theta2, dtype=float)))
    def judge_snell(label, rep, got, sub):
        got = np.asarray(got, dtype=float)
        if got.shape != (len(sub),) and not (len(sub) == 1 and got.shape == ()):
            col.violation("snell-wrong-shape-" + label, dict(rep, observed=list(got.shape), expected=[len(sub)]))
            return
        got = got.reshape(len(sub))
        for g, c in zip(got, sub):
            if c["critical"]:
                continue
            col.count(1)
            if c["reflected"]:
                if not np.isnan(g):
                    col.violation("snell-no-nan-beyond-total-reflection-" + label,
                                  dict(rep, case={k: c[k] for k in ("n1", "n2", "s1")}, observed=float(g)))
                    return
            elif np.isnan(g) or abs(sin_of(g) - fl(c["s2"])) > TOL:
                col.violation("snell-law-violated-" + label, dict(rep, case={k: c[k] for k in ("n1", "n2", "s1", "s2")},
                                                                  expected_sin_theta2=fl(c["s2"]), observed_theta2=float(g)))
                return
    def judge_fresnel(label, rep, got, sub):
        rv, rh = (np.asarray(g) for g in got)
        if rv.shape != (len(sub),) and not (len(sub) == 1 and rv.shape == ()):
            col.violation("fresnel-wrong-shape-" + label, dict(rep, observed=list(rv.shape), expected=[len(sub)]))
            return
        rv, rh = rv.reshape(len(sub)), rh.reshape(len(sub))
        for v, h, c in zip(rv, rh, sub):
            if c["critical"] or c["reflected"]:
                continue
            col.count(1)
            what = {k: c[k] for k in ("n1", "n2", "s1", "rv", "rh")}
            if np.isnan(v) or np.isnan(h) or abs(v) > 1 + TOL or abs(h) > 1 + TOL:
                col.violation("fresnel-modulus-above-one-" + label, dict(rep, case=what, observed=[complex(v).real, complex(h).real]))
                return
            if c["hasp2"] and (abs(v - fl(c["rv"])) > TOL or abs(h - fl(c["rh"])) > TOL):
                kind = "brewster" if c["brewster"] else "normal-incidence" if c["s1"] == [0, 1] else "value"
                col.violation("fresnel-wrong-%s-%s" % (kind, label), dict(rep, case=what, expected=[fl(c["rv"]), fl(c["rh"])],
                                                                          observed=[float(np.real(v)), float(np.real(h))]))
                return
    def call(label, rep, fn, *a):
        keep = [np.array(x, copy=True) for x in a]
        try:
            got = fn(*a)
        except Exception as ex:
            col.violation(label + "-raises-" + type(ex).__name__, dict(rep, observed=repr(ex)[:200]))
            return None
        if any(not np.array_equal(k, np.asarray(x), equal_nan=True) for k, x in zip(keep, a)):
            col.violation(label + "-overwrites-input", dict(rep))
            return None
        return got
    # scalar calls
    for c in cases:
        rep = {"abstract": {k: c[k] for k in ("n1", "n2", "s1", "c1")}}
        th = theta_of(c["s1"])
        got = call("snell", rep, em.snell, fl(c["n1"]), fl(c["n2"]), th)
        if got is not None:
            judge_snell("scalar", rep, [got], [c])
        got = call("fresnel", rep, em.fresnel, fl(c["n1"]), fl(c["n2"]), th)
        if got is not None:
            judge_fresnel("scalar", rep, got, [c])
        # the same real index handed over with a complex TYPE (zero imaginary part)
        got = call("snell", rep, em.snell, fl(c["n1"]), complex(fl(c["n2"]), 0.0), th)
        if got is not None:
            if np.iscomplexobj(got) and abs(np.imag(got)) > 0:
                col.violation("snell-complex-angle-for-real-index", dict(rep, observed=repr(got)))
            else:
                judge_snell("complex-typed-n2", rep, [np.real(got)], [c])
        got = call("fresnel", rep, em.fresnel, fl(c["n1"]), complex(fl(c["n2"]), 0.0), th)
        if got is not None:
            judge_fresnel("complex-typed-n2", rep, got, [c])
        for a, b, r2 in c["cplx"]:
            n2 = complex(fl(a), fl(b))
            got = call("fresnel", rep, em.fresnel, fl(c["n1"]), n2, 0.0)
            th2 = call("snell", rep, em.snell, fl(c["n1"]), n2, 0.0)
            col.count(1)
            if got is not None and th2 is not None:
                rv, rh = got
                if abs(abs(rv) ** 2 - fl(r2)) > TOL or abs(abs(rh) ** 2 - fl(r2)) > TOL or abs(th2) > TOL:
                    col.violation("fresnel-complex-normal-incidence", dict(rep, n2=[fl(a), fl(b)], expected_modulus2=fl(r2),
                                                                           observed=[abs(rv) ** 2, abs(rh) ** 2, float(th2)]))
        if c["reflected"] or c["brewster"]:
            col.nontrivial.add(json.dumps([c["n1"], c["n2"], c["s1"]]))
    # arrays over the refractive indices for one incidence angle: elements straddle the critical angle
    by_angle = {}
    for c in cases:
        by_angle.setdefault(json.dumps(c["s1"]), []).append(c)
    for key, sub in sorted(by_angle.items()):
        th = theta_of(sub[0]["s1"])
        n1v, n2v = np.array([fl(c["n1"]) for c in sub]), np.array([fl(c["n2"]) for c in sub])
        rep = {"abstract": {"s1": sub[0]["s1"], "arrays": "n1, n2 over the whole catalogue (%d elements)" % len(sub)}}
        got = call("snell", rep, em.snell, n1v, n2v, th)
        if got is not None:
            judge_snell("array", rep, got, sub)
        got = call("snell", rep, em.snell, n1v, n2v.astype(complex), th)
        if got is not None:
            judge_snell("complex-typed-array", rep, np.real(got), sub)
        got = call("fresnel", rep, em.fresnel, n1v, n2v, th)
        if got is not None:
            judge_fresnel("array", rep, got, sub)
        # broadcast: one n1 against an array of n2
        first = sub[0]["n1"]
        sel = [c for c in sub if c["n1"] == first]
        got = call("snell", rep, em.snell, fl(first), np.array([fl(c["n2"]) for c in sel]), th)
        if got is not None:
            judge_snell("broadcast", rep, got, sel)
    # arrays over the incidence angle for one pair of media (fresnel documents theta1 as float or ndarray)
    by_media = {}
    for c in cases:
        by_media.setdefault(json.dumps([c["n1"], c["n2"]]), []).append(c)
    for key, sub in sorted(by_media.items()):
        ths = np.array([theta_of(c["s1"]) for c in sub])
        rep = {"abstract": {"n1": sub[0]["n1"], "n2": sub[0]["n2"], "arrays": "theta1 over the catalogue"}}
        got = call("fresnel", rep, em.fresnel, fl(sub[0]["n1"]), fl(sub[0]["n2"]), ths)
        if got is not None:
            judge_fresnel("theta-array", rep, got, sub)
        got = call("snell", rep, em.snell, fl(sub[0]["n1"]), fl(sub[0]["n2"]), ths)
        if got is not None:
            judge_snell("theta-array", rep, got, sub)


def run(ctx):
    ctx.undecided = UNDECIDED
    ctx.rule = ("TLC model-checks, over rational grids and stand-in constants c in {3, 1/2}, k in {1/2, 2}, that the unit "
                "converters are mutually inverse, that radiance2rayleighjeansTb inverts rayleighjeans and the wavelength form "
                "is its Jacobian image, that the spectral-density converters are inverse to each other and return an "
                "increasing grid (reversed exactly when needed); the exact values are compared (1e-12) with the real functions "
                "under patched typhon.constants for 1-d, 2-d and 3-d spectra. Every (c, k, grid) counts as non-trivial. "
                "SnellProps: on the rational points of the unit circle (sines 0, 3/5, 4/5, 5/13, 12/13, 7/25, 24/25, 1) and 11 "
                "rational refractive indices TLC checks Snell's law, total reflection only from the denser medium, |Rv|,|Rh| <= 1, "
                "|Rv| = |Rh| at normal incidence, Rv = 0 exactly at the Brewster angle, and emits sin(theta2), Rv, Rh; snell / "
                "fresnel are called with scalars, with arrays straddling the critical angle, broadcast and theta arrays, and "
                "complex n2 at normal incidence. Inputs must come back unmodified.")
    d = ctx.tlc_dir("num")
    res = ctx.tlc(d, "MCEm", "MCEm.cfg", workers=1, timeout=600)
    cases = list(res.tagged("CASE"))
    if len(cases) != 20:
        raise MachineryError("expected 20 em cases")
    ctx.exhaustive = True
    pmap(ctx, replay, cases, procs=1)
    if ctx.notes.get("standin_constants_not_effective"):
        ctx.notes["canary"] = "stand-in constants did not take effect: the clauses were NOT exercised"
    ctx.traces += len(cases)
    ctx.sample({k: cases[0][k] for k in ("c", "k", "fg", "f2l", "rj", "hz2m")})
    big = ctx.tier != "quick"
    pmap(ctx, replay_planck_forms, [cases], procs=1)
    res = ctx.tlc(d, "SnellNearCritical", "SnellNearCritical.cfg", workers=1, timeout=600)
    ncases = list(res.tagged("CASE"))
    if len(ncases) != 30 or sum(1 for c in ncases if c["near"] and not c["critical"]) < 4:
        raise MachineryError("unexpected near-critical catalogue")
    pmap(ctx, replay_near_critical, [ncases], procs=1)
    ctx.traces += len(ncases)
    res = ctx.tlc(d, "SnellProps", "MCSnellBig.cfg" if big else "MCSnell.cfg", workers=1, timeout=1500)
    scases = list(res.tagged("CASE"))
    if len(scases) != (26 * 26 * 20 if big else 968) or not any(c["reflected"] for c in scases) or sum(1 for c in scases if c["brewster"] and c["hasp2"]) < 4:
        raise MachineryError("unexpected snell catalogue")
    pmap(ctx, replay_snell, [scases], procs=1)
    ctx.traces += len(scases)
