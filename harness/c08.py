"""C08 (partial) -- spectral unit converters, Rayleigh-Jeans pair, spectral-density converters."""
import json

import numpy as np

from numlib import allclose, close, fl, patched
from vlib.par import pmap
from vlib.tlc import MachineryError

UNDECIDED = ["planck / planck_wavelength / planck_wavenumber (positivity, monotonicity, limits) and radiance2planckTb",
             "snell", "fresnel"]


def arr(seq):
    return np.array([fl(x) for x in seq])


def arr2(rows):
    return np.array([[fl(x) for x in r] for r in rows])


def replay(col, case):
    import typhon.constants as C
    from typhon.physics import em
    c, k = fl(case["c"]), fl(case["k"])
    fg = arr(case["fg"])
    spec = arr2(case["spec"])
    rep = {"abstract": {"c": case["c"], "k": case["k"], "grid": case["fg"]}}
    with patched(C, speed_of_light=c, boltzmann=k):
        # "not effective" only if the functions still answer with the REAL constants
        try:
            canary = not close(em.frequency2wavelength(2.0), 299792458.0 / 2.0, 1e-9) and \
                not close(em.rayleighjeans(1.0, 1.0), 2 * 1.380649e-23 / 299792458.0 ** 2, 1e-6)
        except Exception:
            canary = True
        if not canary:
            col.bump("standin_constants_not_effective")
            return
        def chk(label, fn, want, *a):
            try:
                got = fn(*a)
            except Exception as ex:
                col.violation(label + "-raises-" + type(ex).__name__, dict(rep, observed=repr(ex)[:200]))
                return None
            col.count(1)
            if not allclose(got, want):
                col.violation(label + "-wrong-value", dict(rep, expected=np.asarray(want).tolist(), observed=np.asarray(got).tolist()))
            return got
        chk("frequency2wavelength", em.frequency2wavelength, arr(case["f2l"]), fg)
        chk("wavelength2frequency", em.wavelength2frequency, arr(case["f2l"]), fg)        # same map c/x
        chk("frequency2wavenumber", em.frequency2wavenumber, arr(case["f2n"]), fg)
        chk("wavenumber2frequency", em.wavenumber2frequency, arr(case["n2f"]), fg)
        chk("wavelength2wavenumber", em.wavelength2wavenumber, arr(case["l2n"]), fg)
        chk("wavenumber2wavelength", em.wavenumber2wavelength, arr(case["l2n"]), fg)
        chk("rayleighjeans", em.rayleighjeans, arr(case["rj"]), fg, 300.0)
        chk("rayleighjeans_wavelength", em.rayleighjeans_wavelength, arr(case["rjl"]), fg, 300.0)
        chk("radiance2rayleighjeansTb", em.radiance2rayleighjeansTb, arr(case["rjtb"]), fg, 7.0)
        # scalar round trips (the TLC-checked inverse laws, evaluated by the real functions)
        for f in fg:
            for a, b in ((em.frequency2wavelength, em.wavelength2frequency), (em.frequency2wavenumber, em.wavenumber2frequency),
                         (em.wavelength2wavenumber, em.wavenumber2wavelength)):
                if not close(b(a(f)), f, 1e-11) or not close(a(b(f)), f, 1e-11):
                    col.violation("unit-converters-not-inverse", dict(rep, pair=[a.__name__, b.__name__]))
            if not close(em.radiance2rayleighjeansTb(f, em.rayleighjeans(f, 250.0)), 250.0, 1e-11):
                col.violation("rayleighjeans-not-inverted", dict(rep, f=float(f)))
        # spectral densities: 2-d (grid x 2 columns), 1-d (first column) and 3-d (grid x 2 x 1)
        for key, fn in (("hz2m", em.perfrequency2perwavelength), ("m2hz", em.perwavelength2perfrequency),
                        ("hz2n", em.perfrequency2perwavenumber), ("n2hz", em.perwavenumber2perfrequency)):
            want_spec, want_grid = arr2(case[key][0]), arr(case[key][1])
            for shape in ("2d", "1d", "3d"):
                s_in = spec if shape == "2d" else spec[:, 0] if shape == "1d" else spec[:, :, None]
                w = want_spec if shape == "2d" else want_spec[:, 0] if shape == "1d" else want_spec[:, :, None]
                try:
                    got_spec, got_grid = fn(s_in.copy(), fg.copy())
                except Exception as ex:
                    col.violation(key + "-raises-" + type(ex).__name__ + "-" + shape, dict(rep, observed=repr(ex)[:200]))
                    continue
                col.count(1)
                if not allclose(got_spec, w) or not allclose(got_grid, want_grid):
                    kind = "grid-not-reversed" if allclose(np.asarray(got_grid)[::-1], want_grid) else "wrong-value"
                    col.violation("density-%s-%s-%s" % (key, kind, shape), dict(rep, expected=[w.tolist(), want_grid.tolist()],
                                                                               observed=[np.asarray(got_spec).tolist(), np.asarray(got_grid).tolist()]))
        # mutual inverses
        a, g = em.perfrequency2perwavelength(spec.copy(), fg.copy())
        b, g2 = em.perwavelength2perfrequency(a, g)
        d, g3 = em.perfrequency2perwavenumber(spec.copy(), fg.copy())
        e, g4 = em.perwavenumber2perfrequency(d, g3)
        if not (allclose(b, spec, 1e-11) and allclose(g2, fg, 1e-11) and allclose(e, spec, 1e-11) and allclose(g4, fg, 1e-11)):
            col.violation("density-converters-not-inverse", dict(rep))
    col.nontrivial.add(json.dumps([case["c"], case["k"], case["fg"]]))


def run(ctx):
    ctx.undecided = UNDECIDED
    ctx.rule = ("TLC model-checks, over rational grids and stand-in constants c in {3, 1/2}, k in {1/2, 2}, that the unit "
                "converters are mutually inverse, that radiance2rayleighjeansTb inverts rayleighjeans and the wavelength form "
                "is its Jacobian image, that the spectral-density converters are inverse to each other and return an "
                "increasing grid (reversed exactly when needed); the exact values are compared (1e-12) with the real functions "
                "under patched typhon.constants for 1-d, 2-d and 3-d spectra. Every (c, k, grid) counts as non-trivial.")
    d = ctx.tlc_dir("num")
    res = ctx.tlc(d, "MCEm", "MCEm.cfg", workers=1, timeout=600)
    cases = list(res.tagged("CASE"))
    if len(cases) != 20:
        raise MachineryError("expected 20 em cases")
    ctx.exhaustive = True
    pmap(ctx, replay, cases, procs=1)
    if ctx.notes.get("standin_constants_not_effective"):
        ctx.notes["canary"] = "stand-in constants did not take effect: the clauses were NOT exercised"
    ctx.traces += len(cases)
    ctx.sample({k: cases[0][k] for k in ("c", "k", "fg", "f2l", "rj", "hz2m")})
