"""Concretisation of abstract point datasets (<<t, pos>> on a ring) as xarray datasets, and projection
of Collocator results back to the abstract vocabulary."""
import datetime as dt

import numpy as np
import xarray as xr

import ring

BASE = np.datetime64("2019-12-31T23:57:00")      # ticks of one minute across a year boundary
TICK = np.timedelta64(60, "s")
TICK_S = 60


def set_tick(seconds):
    """Length of one abstract time tick (default one minute; one second makes fractional thresholds matter)."""
    global TICK, TICK_S
    TICK, TICK_S = np.timedelta64(int(seconds), "s"), int(seconds)


def times_of(points):
    return np.array([BASE + int(p[0]) * TICK for p in points], dtype="datetime64[ns]")


def latlon_of(points, emb):
    lat = np.array([np.nan if p[1] < 0 else emb[p[1]][0] for p in points], dtype=float)
    lon = np.array([np.nan if p[1] < 0 else emb[p[1]][1] for p in points], dtype=float)
    return lat, lon


def dataset(points, emb, shape="linear", ids=None, extra=None, qpole=None):
    """points: list of (t, pos); ids default 1..n (TLA+ indices).  qpole (+1 / -1): the second pixel of every scan line of a
    grid is a VALID point in quarantine near that pole (id 0; with the equator embedding it is >= 80 degrees of arc from
    every ring position) instead of a NaN position."""
    if shape == "grid2":
        # the same grid with dimension names whose alphabetical order is NOT the array order
        return dataset(points, emb, "grid", ids, extra, qpole).rename({"scnline": "scan", "scnpos": "pixel"})
    n = len(points)
    ids = np.arange(1, n + 1) if ids is None else np.asarray(ids)
    t = times_of(points)
    lat, lon = latlon_of(points, emb)
    if extra is not None:                      # quarantine padding: (times, lat, lon) with id 0
        t = np.concatenate([t, extra[0]])
        lat = np.concatenate([lat, extra[1]])
        lon = np.concatenate([lon, extra[2]])
        ids = np.concatenate([ids, np.zeros(len(extra[0]), dtype=int)])
        n = len(t)
    if shape == "linear":
        return xr.Dataset({"time": ("obs", t), "lat": ("obs", lat), "lon": ("obs", lon), "id": ("obs", ids)},
                          coords={"obs": np.arange(n) * 3 + 7})
    if shape == "timedim":
        return xr.Dataset({"lat": ("time", lat), "lon": ("time", lon), "id": ("time", ids)}, coords={"time": t})
    if shape == "grid":
        if qpole is None:
            lat2 = np.column_stack([lat, np.full(n, np.nan)])
            lon2 = np.column_stack([lon, np.full(n, np.nan)])
            id2 = np.column_stack([ids, np.full(n, -9)])
        else:
            lat2 = np.column_stack([lat, qpole * (88.0 + (np.arange(n) * 0.37) % 1.9)])
            lon2 = np.column_stack([lon, (np.arange(n) * 47.0) % 360.0 - 180.0])
            id2 = np.column_stack([ids, np.zeros(n, dtype=int)])
        return xr.Dataset({"time": ("scnline", t), "lat": (("scnline", "scnpos"), lat2),
                           "lon": (("scnline", "scnpos"), lon2), "id": (("scnline", "scnpos"), id2)},
                          coords={"scnline": np.arange(n) + 100, "scnpos": [0, 1]})
    raise ValueError(shape)


def interval_arg(I, spelling):
    if I < 0:
        return None
    secs = I * TICK_S
    # the last three lie half / a quarter of a second BELOW the tick multiple: for whole-second data they select the same
    # pairs (|dt| < secs  <=>  |dt| < secs - 0.5) - as a number and as a string alike
    frac = [secs - 0.5, "%r s" % (secs - 0.5), np.float64(secs - 0.25)] if secs >= 1 else [secs, "%d s" % secs, float(secs)]
    return ([secs, "%d s" % secs, "%d minutes" % I if TICK_S == 60 else "%d seconds" % secs, dt.timedelta(seconds=secs), float(secs)]
            + frac + [np.int64(secs), np.float32(secs), np.int32(secs)])[spelling % 11]       # numpy scalars: what arr.max() hands over


def distance_arg(k, N, spelling):
    km = ring.threshold_km(k, N, "minkowski")
    return [km, "%r km" % km, "%r m" % (km * 1000.0), "%r miles" % (km / 1.609344)][spelling % 4]


def window_arg(ws, we):
    to = lambda x: (BASE + int(x) * TICK).astype("datetime64[us]").astype(dt.datetime)
    return to(ws), to(we)


def project(res, N, metric="minkowski", pname="primary", sname="secondary", tick_s=None):
    """-> dict(none, pairs [[pid, sid]..], dt [ticks], cls [class])"""
    if res is None:
        return {"none": True, "pairs": [], "dt": [], "cls": []}
    pairs = res["Collocations/pairs"].values
    pid = res[pname + "/id"].values[pairs[0]]
    sid = res[sname + "/id"].values[pairs[1]]
    iv = res["Collocations/interval"].values
    secs = iv.astype("timedelta64[s]").astype(int) if np.issubdtype(iv.dtype, np.timedelta64) else np.asarray(iv, dtype=float)
    dist = res["Collocations/distance"].values
    tick_s = TICK_S if tick_s is None else tick_s
    dts = []
    for s in secs:
        q, r = divmod(float(s), tick_s)
        dts.append(int(q) if r == 0 else -1)
    return {"none": False, "pairs": [[int(a), int(b)] for a, b in zip(pid, sid)], "dt": dts,
            "cls": [ring.classify(float(d), N, metric) for d in dist]}


def compact_check(res, pname="primary", sname="secondary"):
    """C13's structural clause on a compact result: valid indices, every stored point used."""
    pairs = res["Collocations/pairs"].values
    np_, ns = res[pname + "/id"].size, res[sname + "/id"].size
    ok = pairs.shape[0] == 2 and pairs.size > 0
    ok = ok and pairs[0].min() >= 0 and pairs[0].max() < np_ and pairs[1].min() >= 0 and pairs[1].max() < ns
    ok = ok and set(pairs[0].tolist()) == set(range(np_)) and set(pairs[1].tolist()) == set(range(ns))
    return bool(ok)
