#!/venv/bin/python
"""Writes /verif/MANIFEST.json from the table below (single source of truth)."""
import json
import os

VERIF = os.path.dirname(os.path.dirname(os.path.abspath(__file__)))

MC = "model_checking"
CHECKS = {
    "C03": dict(
        text="TLC checks the centred-interval-tree design (any admissible centre, worklist traversal) against the "
             "declarative Hits/PointHits operators for all sequences of <=3 (quick) / <=4 (thorough) intervals; the same "
             "operators are the oracle for an exhaustive replay of every (sequence, query) on the real IntervalTree under "
             "int/negative/float/datetime embeddings, for recorded random sessions validated by IntervalTrace.tla, and "
             "for FileSet.match on TLC-enumerated pairs of file populations.",
        ref="DESIGN.md §5 C03",
        note="Trusted: TLC, the ~40-line IntervalProps module, the harness projection (0-based -> 1-based indices). "
             "Bound: <=4 stored intervals over 5 ticks exhaustively; random sessions up to 60 intervals.",
        technique="TLA+ spec (IntervalProps/IntervalTreeDesign) model-checked with TLC; TLC-generated cases replayed into "
                  "typhon; recorded traces validated by TLC (IntervalTrace)"),
}

NOT_APPLICABLE = {
    "C07": "Every clause concerns floating-point accuracy of sin/cos/arctan2/sqrt compositions or convergence of a "
           "fixed-point iteration over a continuous domain; TLA+/TLC has no reals or transcendental functions and there "
           "is no discrete state, schedule or rational core to specify (DESIGN.md §6).",
}
NOT_YET = "check not built yet in this round (planned, see DESIGN.md §5)"


def main():
    props = [json.loads(l)["id"] for l in open(os.path.join(VERIF, "properties.jsonl"))]
    checks = []
    na = []
    for pid in props:
        if pid in CHECKS:
            c = CHECKS[pid]
            checks.append({
                "property_id": pid,
                "quick_cmd": "bin/check %s --tier quick" % pid,
                "thorough_cmd": "bin/check %s --tier thorough" % pid,
                "evidence_file": "/verif/evidence/%s.json" % pid,
                "replay_cmd_template": "bin/check %s --replay {path}" % pid,
                "engine": "tlc+replay",
                "level_claimed": {"category": MC, "text": c["text"], "design_ref": c["ref"]},
                "level_note": c["note"],
                "technique": c["technique"],
            })
        else:
            na.append({"property_id": pid, "reason": NOT_APPLICABLE.get(pid, NOT_YET)})
    m = {
        "version": 1,
        "setup_cmd": "bin/setup",
        "hooks": {
            "guard": "TYPHON_VERIF",
            "enable": "no build step: checks import typhon from /repo's working tree with TYPHON_VERIF=1; all "
                      "instrumentation is installed by the harness through module-level names (no source hooks so far)",
            "baseline_off_cmd": "cd /repo && env -u TYPHON_VERIF /venv/bin/python -m pytest -ra -q -p no:cacheprovider "
                                "--timeout=900 --continue-on-collection-errors",
            "source_commits": [],
            "add_only": True,
        },
        "engines": [{"name": "tlc+replay", "path": "/verif/bin/check",
                     "serves_properties": sorted(CHECKS),
                     "kind_free_text": "TLA+ specifications under /verif/spec checked by TLC; TLC-generated cases replayed "
                                       "into typhon and recorded typhon traces validated by TLC"}],
        "checks": checks,
        "not_applicable": na,
        "notes": "See DESIGN.md. Exit codes: 0 held/known findings only, 1 VIOLATION, 2 machinery failure.",
    }
    with open(os.path.join(VERIF, "MANIFEST.json"), "w") as f:
        json.dump(m, f, indent=1)


if __name__ == "__main__":
    main()
