#!/venv/bin/python
"""Writes /verif/MANIFEST.json from the table below (single source of truth)."""
import json
import os

VERIF = os.path.dirname(os.path.dirname(os.path.abspath(__file__)))

MC = "model_checking"
CHECKS = {
    "C03": dict(
        text="TLC checks the centred-interval-tree design (any admissible centre, worklist traversal) against the "
             "declarative Hits/PointHits operators for all sequences of <=3 (quick) / <=4 (thorough) intervals; the same "
             "operators are the oracle for an exhaustive replay of every (sequence, query) on the real IntervalTree under "
             "int/negative/float/datetime embeddings, for recorded random sessions validated by IntervalTrace.tla, and "
             "for FileSet.match on TLC-enumerated pairs of file populations. "
         "match(): file names whose path order differs from their time order; max_interval as timedelta, int, float, numpy scalars and string.",
        ref="DESIGN.md §5 C03",
        note="Trusted: TLC, the ~40-line IntervalProps module, the harness projection (0-based -> 1-based indices). "
             "Bound: <=4 stored intervals over 5 ticks exhaustively; random sessions up to 60 intervals.",
        technique="TLA+ spec (IntervalProps/IntervalTreeDesign) model-checked with TLC; TLC-generated cases replayed into "
                  "typhon; recorded traces validated by TLC (IntervalTrace)"),
}

CHECKS["C01"] = dict(
    text="FindDesign.tla (directory walk with per-level pruning, year-only fallback, fixed look-back spans) is model-checked "
         "by TLC against the declarative FindSpec of FindProps.tla for all populations/queries of the bound and per layout; "
         "the precondition's necessity is shown by an expected counterexample. FindSpec is then the oracle for replaying "
         "TLC-enumerated populations x every period/filter/exclusion on real directory trees under 5 calendar embeddings x "
         "16 layouts x name styles (full / partial / no end fields, with and without user placeholders) on the local file system and inside a zip archive (fsspec), and recorded random sessions (find, bundles, `in`, len) are validated by FindTrace.tla. "
         "Every abstract period is concretised in four ways (tick times, a second below, a microsecond above the previous tick for the end, half a second after the previous tick for both bounds).",
    ref="DESIGN.md §5 C01",
    note="Trusted: TLC, FindProps (~100 lines), the tick->datetime embedding and path->id projection of the harness. Bounds: "
         "<=3-4 files on 10-12 ticks exhaustively/sampled, random sessions up to 14 files on 16 ticks. Remote file "
         "systems and user regexes beyond fixed tag values are not exercised; frequency bundles only with sort=True.",
    technique="TLA+ spec (FindProps/FindDesign) model-checked with TLC; TLC-generated cases replayed into typhon.files.FileSet; "
              "recorded traces validated by TLC (FindTrace)")
CHECKS["C16"] = dict(
    text="ClosestOK (FindProps.tla) defines the set of admissible answers of find_closest (covering file within one "
         "sub-directory period, else nearest by min(|t0-t|,|t1-t|), none otherwise; a closed neighbourhood is accepted as "
         "well). TLC prints that set for every half tick of every enumerated population; the real find_closest / fileset[t] "
         "is replayed on real trees (layouts with and without temporal sub-directories, end fields, user placeholder, "
         "templates that make the exact-name short cut fire), and random sessions with filters and exclusions are validated "
         "by FindTrace.tla.",
    ref="DESIGN.md §5 C16",
    note="Trusted: TLC, FindProps!ClosestOK, harness projection. Bounds: <=3 files on 10-12 ticks, every half tick; random "
         "sessions up to 10 files.",
    technique="TLA+ spec (FindProps!ClosestOK) evaluated by TLC as oracle; cases replayed into FileSet.find_closest; recorded "
              "traces validated by TLC (FindTrace)")

CHECKS["C02"] = dict(
    text="NameProps.tla (on Calendar.tla: leap rule, day-of-year both ways, carries) defines the number every temporal "
         "placeholder must carry, the start and end get_info must report (year2 threshold, full / partial / absent end "
         "fields, roll-over by the next coarser unit, time_coverage) and TLC checks the round-trip and 'least end >= start' "
         "theorems over a boundary catalogue; every enumerated (template, start, end) is replayed through get_filename, "
         "parse_filename and get_info (also info_via='both') under four concrete spellings. NameMatch.tla decides which "
         "single-piece corruptions of valid names must be rejected with ValueError. "
         "User placeholders are also given through set_placeholders after the object has already parsed a name. "
         "time_coverage is re-assigned on a used object (1 hour, None, 1 day); templates whose end spells its date differently from the start (edate).",
    ref="DESIGN.md §5 C02",
    note="Trusted: TLC, Calendar/NameProps/NameMatch, the harness' zero padding and template assembly. User regexes are "
         "limited to default/[A-Z]+/value list; regex metacharacters other than '.' and '*' in templates are by design "
         "regular expressions and are not treated as literals; end templates with end_day but no end_month are outside the "
         "property's wording.",
    technique="TLA+ spec (Calendar/NameProps/NameMatch) model-checked with TLC; TLC-generated cases replayed into "
              "FileSet.get_filename/parse_filename/get_info")

CHECKS["C06"] = dict(
    text="GeoIndexProps.tla states the answer on an abstract ring (pair set = ring distance <= k, each once, with its "
         "distance class); ShuffleDesign.tla (shuffle, raw tree answer, index translation) is model-checked against it for "
         "ALL permutations; TLC-enumerated (build, query) sequences with the oracle per radius class are replayed on the real "
         "GeoIndex with every permutation forced through numpy.random.shuffle, on three great-circle embeddings (date line, "
         "poles, tilted), both metrics/trees, leaf sizes, seven spellings of r, shuffle off, return_distance=False; random "
         "sessions on a 24-ring (up to 200 points, real seeded shuffles) are validated by GeoTrace.tla. "
         "The radius is written in every supported spelling (19 unit names, bare numbers) and queries are repeated to 2501 / 4099 points.",
    ref="DESIGN.md §5 C06",
    note="Trusted: TLC, GeoIndexProps (~30 lines), the ring embedding (thresholds sit mid-gap, hundreds of km from any "
         "class, so floating point cannot flip membership) and the harness' chord/arc formulas used only to classify "
         "REPORTED distances (rel 1e-6). The class 'exactly half the circumference' is exercised for the chord metric only.",
    technique="TLA+ spec (GeoIndexProps/ShuffleDesign) model-checked with TLC; TLC-generated cases replayed into GeoIndex with "
              "forced shuffle permutations; recorded traces validated by TLC (GeoTrace)")

CHECKS["C04"] = dict(
    text="CollocProps.tla defines the pair set (ring distance class <= k, |dt| < I, both times inside the window, NaN "
         "positions ignored) with each pair's |dt| and distance class, and TLC checks the transposition law; TLC-enumerated "
         "pairs of small datasets with the oracle for every parameter combination are replayed on Collocator.collocate in "
         "both argument orders, as linear / time-dimension / scan-line-grid datasets, on three great-circle embeddings, with "
         "threshold spellings and tuning parameters, and again inflated by >1000 far-away points per side so that the "
         "temporally pre-binned path (>10^6 candidates) handles the same scenario; call histories on ONE Collocator "
         "(including a fine-scale family whose datasets are np.allclose without being equal) and random clouds up to 150 "
         "points are validated by CollocTrace.tla. "
         "The start/end window applies to purely spatial searches as well; one-second ticks with thresholds half a second below the tick multiple (number / string / numpy float); grids with non-alphabetical dimension names and a valid (quarantined) second pixel; datasets overwritten in place between the calls of a history.",
    ref="DESIGN.md §5 C04",
    note="Trusted: TLC, CollocProps (~50 lines) on GeoIndexProps, the ring embedding with mid-gap thresholds, one-minute "
         "ticks, the id variable attached by the harness. The start/end window is specified together with max_interval "
         "(typhon documents a purely spatial search for max_interval=None); max_distance=None is not implemented by typhon "
         "and not exercised; dimensions always carry unique coordinate labels as the property requires.",
    technique="TLA+ spec (CollocProps) evaluated/model-checked with TLC; TLC-generated cases replayed into "
              "Collocator.collocate; recorded call histories validated by TLC (CollocTrace)")

CHECKS["C13"] = dict(
    text="CompactProps.tla defines CompactInv, Expand, the collapse statistics per reference point (count, sum, sum of "
         "squares, max over non-NaN partners; either group as reference) and Concat with index shifts; TLC model-checks "
         "Expand(Concat(a,b)) = Expand(a) ++ Expand(b) and invariant preservation and enumerates all compact datasets of the "
         "bound, which are replayed on expand / collapse (default, named reference, custom collapser) / "
         "concat_collocations (lists of 1-3, inputs reused afterwards), every 9th tiled beyond 1000 pairs; genuine "
         "collocate() results are checked against CompactInv and pair-consistent expansion. "
         "Variables whose names begin like time/lat/lon, a float32 variable with a large offset, a custom collapser that replaces a standard name followed by default calls.",
    ref="DESIGN.md §5 C13",
    note="Trusted: TLC, CompactProps, the hand-built xarray layout (copied from collocate output). mean/std are compared "
         "through the exact integer identities mean*n = sum and std^2*n^2 = n*sumsq - sum^2 (1e-9/1e-7). numba is not "
         "installed, so the >1000-pair path runs the same Python row assignment.",
    technique="TLA+ spec (CompactProps) model-checked with TLC; TLC-generated cases replayed into "
              "typhon.collocations.expand/collapse/concat_collocations")

CHECKS["C12"] = dict(
    text="CompressDesign.tla models compress and decompress as state machines with one action per step and a failing twin "
         "per I/O step; TLC checks RoundTrip, PassThrough, NoDebris, BodyAtomic, that faults surface, and termination "
         "(liveness under weak fairness) over all fault placements, and every terminal state is replayed on the real "
         "context managers for gz/bz2/zip/xz x 5 contents x 3 namings with the fault injected at that very step (module-level "
         "shutil, tempfile, compressor table and open of typhon.files.utils; exception in the with-body; truncated archive; "
         "explicit tmpdir / target); stored files must open with the standard library. "
         "Round trips also for upper- and mixed-case suffixes (pass-through or genuine archive).",
    ref="DESIGN.md §5 C12",
    note="Trusted: TLC, CompressDesign (~110 lines), fault injectors. What a failed compress_as leaves in the TARGET is "
         "deliberately unconstrained (the property only speaks about exceptions inside the block). Zip member naming is "
         "not part of the property.",
    technique="TLA+ spec (CompressDesign) model-checked with TLC incl. liveness; every TLC terminal state replayed with "
              "fault injection into typhon.files.compress/decompress")

CHECKS["C15"] = dict(
    text="CacheDesign.tla models the cache file, its .backup sibling and the in-memory cache under touch, the four steps of "
         "save_cache (open/truncate backup, write, close, rename), a Crash enabled between any two steps, corruption by an "
         "adversary and Restart; TLC checks MainComplete (the saved file is never a partial or mixed document), LoadOK and "
         "RoundTrip over all histories of the bound and prints every history ending in a restart; each is replayed on real "
         "FileSet objects with the crash raised as a BaseException at exactly that step (k-th write of the backup, before "
         "the rename), six corruption variants, two entry catalogues (microseconds / years 1000 and 9999; non-temporal "
         "datetime.min/max) and a truncation sweep over every byte; find() with the loaded cache is compared with find() "
         "without. "
         "CacheDesign (incl. Reset = reset_cache / time_coverage assignment) refines the history-free CacheInd (PROPERTY RefinesInd), whose MainComplete / LoadOK invariant Apalache proves inductive for any number of saves, crashes and restarts.",
    ref="DESIGN.md §5 C15",
    note="Trusted: TLC, CacheDesign (~100 lines), the crash injectors (module-level open/shutil/atexit of "
         "typhon.files.fileset; the evidence says if a crash point could not be reached). A crash is emulated by an "
         "exception that leaves a flushed prefix in the backup; the rename is assumed atomic (POSIX rename on one file "
         "system).",
    technique="TLA+ spec (CacheDesign) model-checked with TLC over all crash points; every TLC history replayed with crash "
              "injection into FileSet.save_cache/load_cache")

CHECKS["C10"] = dict(
    text="PoolProps.tla states Order / Once / Bound / Errors / Complete over the observable events of one call; "
         "PoolDesign.tla (FIFO executor with W workers, map submitting everything, imap with a deque of <= W futures blocking "
         "on the oldest, failing tasks, error_to_warning) is model-checked against it for all interleavings incl. termination "
         "under weak fairness; every feasible completion order per fault choice is forced on the real map / imap / collect / "
         "icollect through a gated ThreadPoolExecutor installed via typhon.files.fileset.ThreadPoolExecutor, and the recorded "
         "submit/start/finish/consume/raise logs are validated against PoolProps by TLC (PoolTrace). align() is driven with "
         "random gated schedules of both loaders and compared with the match list (pairs, order, each needed secondary read "
         "once, skip_errors); process pools are run ungated and judged on order and completeness. "
         "PoolDesign refines the history-free PoolWindowInd (PROPERTY RefinesInd in the same TLC run), whose window / running / in-order invariant Apalache proves inductive for all N, W <= 12 (extra evidence, with a negative control). "
         "Pool size left to the fileset's defaults (threads asked for on a fileset that prefers processes); extra args / kwargs of map; filesets with a compression suffix processed twice through one object.",
    ref="DESIGN.md §5 C10",
    note="Trusted: TLC, PoolProps (~45 lines), the gated executor (time-outs only detect a stuck replay: the schedule is "
         "then released and the run is still judged on PoolProps; the evidence counts such runs). Bounds: n <= 4 (quick) / 6 "
         "files, W <= 3, at most one failing file per schedule plus the all-files-fail cases. AlignDesign.tla (two lazy loaders, usage "
         "counter, eviction) is model-checked for all match relations of <= 3 x 3 files; align's REPLAY uses random gated "
         "schedules, not TLC's.",
    technique="TLA+ spec (PoolProps/PoolDesign) model-checked with TLC incl. liveness; TLC completion orders forced on "
              "FileSet.map/imap via a gated executor; recorded event logs validated by TLC (PoolTrace)")

CHECKS["C11"] = dict(
    text="FileOpsProps.tla is a state machine over the abstract directory contents of two filesets (key = identity as far "
         "as the layout spells it out, content id) with actions Write, Move/Copy (selection by period, tag filter, explicit "
         "list; colliding targets take the content of one of the colliding sources) and Delete (dry or not); TLC checks key "
         "uniqueness, projection and NoInvention and simulates histories, recording the state after every step; each history "
         "is replayed on two real filesets in 8 layout/handler configurations (pickle, NetCDF with dtypes/NaN/datetimes/"
         "scale-offset/pseudo group, CSV with read_args, added compression suffix with convert, __setitem__ and write) and "
         "after EVERY step all files on disk are listed, parsed back through the template and read through the handler. "
         "Selections: all, period, tag filter, explicit list, explicit EMPTY list (selects nothing).",
    ref="DESIGN.md §5 C11",
    note="Trusted: TLC, FileOpsProps (~110 lines), the content catalogue and its equality (values, NaN-aware; dtype "
         "widening by the NetCDF reader is not judged). Handlers run in one worker thread (netCDF4/HDF5 is not thread-safe). "
         "Outside the statement and not exercised: a template STRING as move target together with convert (move then works on "
         "a copy of the source fileset and keeps its handler), renaming .zip files without conversion (decompress looks for a "
         "member named after the new file), uint8 value 255 (netCDF default fill).",
    technique="TLA+ spec (FileOpsProps) model-checked and simulated with TLC; TLC histories replayed step by step into "
              "FileSet write/move/delete with the directory contents compared after every step")

CHECKS["C19"] = dict(
    text="ScoresProps.tla (on Rat.tla, exact rationals) defines the pinball loss, the mean score, tau-quantiles, mape and "
         "bias; TLC model-checks non-negativity, zero-iff-equal, that the minimiser set of the mean pinball loss over the "
         "candidates coincides with the tau-quantiles among them, the percent laws and scale invariance for all samples of "
         "the bound and all tau = k/8, and emits cases with exact scores; the real functions are evaluated on the same dyadic "
         "values (exact float arithmetic) in shapes (n,), (n,1), (n,k), the argmin set over constant estimates is recomputed "
         "with the real mean_quantile_score and compared with TLC's, inconsistent shapes (n+1 values, and sizes that would "
         "broadcast: k*n, (n,k), 2n against (n,1)) must raise ValueError; mape/bias on (n,) and (n,1) layouts, under negative "
         "and per-sample signed common factors. "
         "(n, k) inputs in different memory layouts; samples of 5000.",
    ref="DESIGN.md §5 C19",
    note="Trusted: TLC, Rat/ScoresProps. Samples <= 5 values from 0..4; candidates for the minimiser are the integers "
         "0..4 (complete for a convex piecewise-linear function with kinks at sample points). mape/bias: equal layouts (n,)/(n,1) for both, mixed "
         "layouts for mape only (bias does not flatten its arguments).",
    technique="TLA+ spec (ScoresProps over exact rationals) model-checked with TLC; TLC-generated cases replayed into "
              "typhon.retrieval.scores")

CHECKS["C14"] = dict(
    text="PARTIAL (rational clauses only). TrapzProps.tla defines the trapezoid sum on nested sequences of rank 1-3 along "
         "every axis; TLC model-checks linearity, additivity at grid points, sign reversal and default spacing and emits "
         "integer arrays with their (doubled) integrals, replayed on integrate_column with exact equality (int and float "
         "dtype, negative axis, default spacing). AtmosCases.tla gives IWV in its hydrostatic and general form, layer "
         "heights of pressure2height and the CRH laws (1 for a saturated profile, linear in q) as exact rationals for "
         "stand-in constants; the real functions are evaluated on the same floats with typhon.constants / the saturation "
         "function patched (canary-guarded), to 1e-12; CRH for fields of rank 1-3 along every axis. IsaProps.tla transcribes "
         "the tabulated standard atmosphere (piecewise linear in height, linearly continued beyond the table): exact "
         "temperatures at 22 heights, both addressings at the 8 tabulated levels, pressure2height(p) = pressure2height(p, T_ISA). "
         "Homogeneity of the integral in the coordinate (TLC), replayed on a grid scaled by 2^-30; every profile also top-down (increasing pressure), mirror law of the heights; general IWV form along every axis.",
    ref="DESIGN.md §5 C14, §6",
    note="NOT decided by this technique (no exp/log in TLA+): convergence of the two IWV formulations, the isothermal "
         "law z = (RT/g) ln(p0/p), standard-atmosphere interpolation in log-pressure between the tabulated levels. Trusted: TLC, "
         "Rat/TrapzProps/AtmosCases/IsaProps (the ISA table is transcribed from the source), the float "
         "evaluation of small rationals.",
    technique="TLA+ spec (TrapzProps/AtmosCases/IsaProps over integers and exact rationals) model-checked with TLC; TLC-generated "
              "cases replayed into typhon.math.integrate_column and typhon.physics.atmosphere")

CHECKS["C09"] = dict(
    text="PARTIAL (rational clauses only). HumidityProps.tla defines the six humidity converters as Moebius maps over exact "
         "rationals, RH<->VMR for an arbitrary saturation value, the IFS mixed-phase blend (ice below Tt-23, liquid above Tt, "
         "quadratic blend between) and the moist lapse rate as a rational function; TLC model-checks mutual inverses, "
         "two-step routes, monotonicity, 0->0, the blend's branch selection, bounds and continuity at both joints, and "
         "0 < lapse <= g/cp with equality at ws = 0; the printed exact values are compared (1e-12) with the real functions on "
         "scalars, arrays and 0-d arrays with Mw/Md, the thermodynamic constants and the Murphy-Koop functions replaced by "
         "stand-ins (module-level names, canary-guarded); non-positive temperatures must raise ValueError. The converter grid "
         "includes the trace-gas value 1e-6 and converters / inverse pairs are compared RELATIVELY (1e-12).",
    ref="DESIGN.md §5 C09, §6",
    note="NOT decided (exp/log/tanh are outside TLA+): positivity, monotonicity and ordering of e_eq_water_mk / "
         "e_eq_ice_mk themselves and their 1e-6 agreement at the triple point.",
    technique="TLA+ spec (HumidityProps over exact rationals) model-checked with TLC; TLC-generated values replayed into "
              "typhon.physics.atmosphere with stand-in constants")
CHECKS["C08"] = dict(
    text="PARTIAL (rational clauses only). EmUnitsProps.tla defines the frequency/wavelength/wavenumber converters, the "
         "Rayleigh-Jeans law in frequency and wavelength form with its brightness-temperature inversion and the four "
         "spectral-density converters (Jacobian f^2/c resp. c, grid reversal) over exact rationals with symbolic constants; "
         "TLC model-checks mutual inverses, the Jacobian relation and that converted grids are increasing again; the exact "
         "values are compared (1e-12) with the real functions under patched typhon.constants for 1-d, 2-d and 3-d spectra; "
         "inputs must come back unmodified. SnellProps.tla: on the rational points of the unit circle (sin, cos both rational) "
         "and 11 rational refractive indices TLC checks Snell's law, total reflection only out of the denser medium, "
         "|Rv|,|Rh| <= 1, |Rv| = |Rh| at normal incidence, Rv = 0 exactly at the Brewster incidences, complex n2 at normal "
         "incidence; snell / fresnel are replayed with scalars, arrays straddling the critical angle, broadcast and theta arrays. "
         "Rayleigh-Jeans homogeneity (TLC) replayed at GHz frequencies given as Python integers; the Jacobian relation between the three Planck forms and the broadcast shape for eight scalar / array / broadcast combinations; real refractive indices of complex type.",
    ref="DESIGN.md §5 C08, §6",
    note="NOT decided (exp/log/sin/sqrt are outside TLA+): everything about planck*, radiance2planckTb; snell / fresnel at "
         "angles whose sine and cosine are not both rational and for complex n2 at oblique incidence.",
    technique="TLA+ spec (EmUnitsProps, SnellProps over exact rationals) model-checked with TLC; TLC-generated values replayed into "
              "typhon.physics.em with stand-in constants")

CHECKS["C17"] = dict(
    text="PARTIAL (exact identities for small shapes). OemProps.tla implements matrix algebra over exact rationals "
         "(inverse by adjugate/determinant) and TLC model-checks, for all nine shapes n, m in 1..3, integer Jacobians incl. "
         "zero and rank-deficient ones and SPD covariances (identity, scales 1:4, correlated): n-form gain = measurement-"
         "space gain, A = G K = I - S Sa^-1, S symmetric positive definite, Sa - S positive semidefinite, spectrum of A in "
         "[0, 1) (via the coefficients of the characteristic polynomials of A and I - A); the printed S, G, A, A(x - xa) and "
         "G e_y are compared (1e-9) with error_covariance_matrix, retrieval_gain_matrix, averaging_kernel_matrix, "
         "smoothing_error and retrieval_noise. "
         "Sequences of cases through the same array objects (overwritten in place); float32 and integer Jacobians.",
    ref="DESIGN.md §5 C17, §6",
    note="NOT decided: shapes up to 30 x 40, ill-conditioned inputs, the two limit statements (need floating-point analysis). "
         "Trusted: TLC, Rat/OemProps.",
    technique="TLA+ spec (OemProps: rational matrix algebra) model-checked with TLC; TLC-generated matrices replayed into "
              "typhon.retrieval.oem")

CHECKS["C18"] = dict(
    text="PARTIAL (index bookkeeping in the degenerate-weight regimes). BmciProps.tla defines, for a database sequence and an "
         "observation, the selection (exact matches in the 'spike' regime S = 1e-6 D where all other weights underflow to 0; "
         "everything in the 'flat' regime S = 1e12 D), its mean, variance, x-sorted values and cumulative shares as exact "
         "rationals, without mentioning the database order; TLC checks the model-level laws and emits sampled databases "
         "(ties, constant x, 1-3 channels, observation inside/outside) plus databases placed on one chi-square shell; BMCI.predict / cdf / predict_quantiles are run for "
         "permutations of the database, diagonal and correlated D and x2_max in {-1, 0, 0.5, 50}: estimates must equal the "
         "prescribed statistics, be permutation invariant, be unchanged by x2_max, cdf non-decreasing ending at 1, quantiles "
         "monotone within the database range, NaN (no exception) without hits; the x2_max window must keep every entry whose "
         "exact rational chi-square is within x2_max (covariances incl. eigenvalues << 1/2); when TLC finds the whole database "
         "on one chi-square shell, predict() with S = D itself must give the plain mean and spread (equal weights). "
         "All channels shifted by 2^22; x2_max = 0 for correlated covariances as well.",
    ref="DESIGN.md §5 C18, §6",
    note="NOT decided: anything depending on the numerical value of exp(-chi^2/2) for non-degenerate weights off a single shell, incl. the "
         "'change bounded by the left-out weight share' clause. x2_max = 0 is exercised with diagonal D only (for correlated D "
         "exact matches sit on the window boundary up to rounding).",
    technique="TLA+ spec (BmciProps over exact rationals) checked with TLC; TLC-generated databases replayed into "
              "typhon.retrieval.bmci.BMCI in regimes with exactly representable weights")

CHECKS["C20"] = dict(
    text="SrtmProps.tla states in integer units of half a cell which rows/columns form the block that covers a rectangle and "
         "overshoots it by less than one cell, which tiles intersect it with positive area, and which pixel of which tile "
         "belongs to every cell; TLC checks the covering law and enumerates rectangles with corners around a four-tile "
         "corner, tile edges, the pole row and +-180 degrees (aligned corners at multiples of 1/8 degree, unaligned ones in "
         "mid-cell); SRTM30.elevation / get_tiles are run with synthetic tiles whose pixel encodes global row, column and "
         "tile index and EVERY returned cell is compared; get_native_grids(bounds(t)) = get_grids(t) for all 27 tiles; tile "
         "cache histories (warm/cold) from TileCache.tla are replayed on the real get_tile with a counting download stub. "
         "Unaligned edges are placed mid-cell and a nanodegree from the cell borders. "
         "Cache histories run the real get_tile / download_tile on 6 x 4-pixel tiles with only urllib replaced, including transfers that break off (TileCache!FailingRequest); corners given as 0-d arrays and reused.",
    ref="DESIGN.md §5 C20",
    note="Trusted: TLC, SrtmProps (~60 lines), the synthetic pixel formula (also evaluated by TLC for the corner cells). "
         "Aligned corners are restricted to values exactly representable in binary; decimal-aligned corners are undecidable "
         "to 1e-15 and are not used. MosaicDesign (mask loop on a scaled world) of DESIGN.md is not written.",
    technique="TLA+ spec (SrtmProps, TileCache) checked with TLC; TLC-generated rectangles and cache histories replayed into "
              "typhon.topography.SRTM30 with synthetic tiles")

CHECKS["C05"] = dict(
    text="ResultQueueDesign.tla models multiprocessing.Queue(maxsize=K) and the parent loop (local buffers, feeder, pipe, "
         "bounded semaphore, crash marker, exit only after flush; PollAlive / Get / EndDrain) and TLC checks conservation, no "
         "duplicates, per-child FIFO, the semaphore bound and termination under weak fairness for all interleavings (K <= 3); "
         "the data side is CollocProps on the UNION of all files: TLC-generated point scenarios are split into files in four "
         "ways (per tick, pairs, offset thirds, single) and run through collocate_filesets with 1-3 real worker processes, "
         "bundle None/primary/daily, memory and Collocations-fileset output (read back), one unreadable file with "
         "skip_file_errors, the 'no files match' and 'same span' scenarios; with thread-backed fake processes and a fake "
         "queue with randomised feeder/poll timing many interleavings per scenario are run and the put/get logs plus the "
         "delivered bag are validated by PipelineTrace.tla. "
         "ResultQueueDesign refines the set-based ResultQueueInd (PROPERTY RefinesInd), whose conservation invariant Apalache proves inductive for all K, R up to 4 (quick: 3, 2), any None results and crashers; Collocations.search is exercised through a recording collocator.",
    ref="DESIGN.md §5 C05",
    note="Trusted: TLC, CollocProps/ResultQueueDesign/PipelineTrace, the fake Process/Queue (semantics: a producer exits only "
         "after its buffer is flushed, as a real process joins its feeder thread). Real-process runs are judged on the "
         "schedule-independent bag only. Known finding (see known_findings.txt): output files named by the time span of their "
         "primary points overwrite each other when two results share a span.",
    technique="TLA+ spec (ResultQueueDesign model-checked incl. liveness; CollocProps as data oracle) with TLC; TLC-generated "
              "scenarios replayed into Collocator.collocate_filesets with real and fake processes; queue logs validated by TLC "
              "(PipelineTrace)")

# additions of seeding rounds 6 and 7 (DESIGN.md section 14)
LATE = {
    "C01": " Queries include pairs of staggered, overlapping exclusion periods (FindCases!XStaggered); every filtered find is "
           "repeated with the same filter dictionary object; a copy narrowed to another tag must not move the original's answers.",
    "C02": " A fifth spelling repeats every date field in cumulative directory levels; a user placeholder occurs twice; a "
           "time_coverage next to end fields must not replace the end the name gives. Every third replay runs on a fileset object that was built with another template and given this one later (fs.path = ...).",
    "C03": " IntervalCases!ReplicationLaw (S stored k times over answers with shifted copies) is model-checked and replayed with "
           "int8 ... float32 arrays that hold more rows than their dtype can count; match() also with fractional max_interval.",
    "C04": " max_interval in 11 spellings incl. numpy scalars and zero; time bins that do not begin with a point; narrow bins "
           "(bin_factor < 1) with pairs further apart than one bin. Sub-second time stamps: one side shifted by half a second, max_interval in the gap (I ticks + 3/4 s), the strict pair law on exact rational times.",
    "C05": " Every yielded dataset must announce, and every written file be named by, the time span of the primary points it holds. A layout with day sub-directories, start-only names and a fixed time_coverage (files reach across midnight).",
    "C10": " align(): nested primaries (a secondary shared by primaries that are not neighbours); a read error inside a bundle; failing readers whose error is a TypeError are still called exactly once.",
    "C11": " A user-defined placeholder regex with a foreign file in the fileset's directories that no operation may touch; falsy "
           "contents; whole-fileset read-back through collect(); post_reader on compressed files. Time stamps finer than the file names (minute, second, millisecond templates): each content lands in, and is found in, the name-resolution bin containing its stamp.",
    "C12": " Names at the file system's NAME_MAX.",
    "C13": " Group names of which one begins with the other; labelled channels in opposite orders; infinite values. concat_collocations on genuine collocate() results with together more than 256 stored points per side.",
    "C15": " Catalogues with a non-UTF-8 file name, with the time_coverage option (last file ending at datetime.max) and with a "
           "handler (info_via='both') whose get_info fails on the first look at every file. Corruptions of the VALUES of 'times' (numbers, strings cut short, dates without time, nested lists).",
    "C16": " A narrowed copy must not move the original's answers; failed reads on compressed files; a nominal time_coverage "
           "next to end fields.",
    "C17": " OemProps!BlockLaw (block-diagonal problems have block-diagonal S, G, A) is model-checked and replayed as histories of "
           "composed problems with up to 39 measurements that share their outer blocks. OemProps!LimitFamilyOver: an over-determined "
           "K with vanishing noise (closed forms, both gain forms).",
    "C06": " The radius also as 16- and 32-bit numpy integers (whole kilometres, mid-gap).",
    "C08": " Every density conversion is repeated with the caller's grid array doubled in place.",
    "C09": " e_eq_mixed_mk must leave the array it is given untouched and answer a second call alike.",
    "C14": " column_relative_humidity with the axis counted from the end.",
    "C18": " The one-shell check also in units 2^20 times larger (covariance entries around 1e-12).",
    "C19": " ScoresProps!PinballHalf: integer-typed estimates against observations that are not whole numbers.",
    "C20": " TileCache has a 'garbage' outcome (a transfer that completes without delivering an archive); the cache directory "
           "carries glob metacharacters; the client changes returned grids in place between two requests; rectangles at 60 S. Edges written as decimals naming a cell border (7200 rectangles), judged at the exact rational value of the double; one known finding (ulp-level quotient rounding in get_native_grids).",
}

NOT_APPLICABLE = {
    "C07": "Every clause concerns floating-point accuracy of sin/cos/arctan2/sqrt compositions or convergence of a "
           "fixed-point iteration over a continuous domain; TLA+/TLC has no reals or transcendental functions and there "
           "is no discrete state, schedule or rational core to specify (DESIGN.md §6).",
}
NOT_YET = "check not built yet in this round (planned, see DESIGN.md §5)"


def main():
    props = [json.loads(l)["id"] for l in open(os.path.join(VERIF, "properties.jsonl"))]
    checks = []
    na = []
    for pid in props:
        if pid in CHECKS:
            c = CHECKS[pid]
            checks.append({
                "property_id": pid,
                "quick_cmd": "bin/check %s --tier quick" % pid,
                "thorough_cmd": "bin/check %s --tier thorough" % pid,
                "evidence_file": "/verif/evidence/%s.json" % pid,
                "engine": "tlc+replay",
                "level_claimed": {"category": MC, "text": c["text"] + LATE.get(pid, ""), "design_ref": c["ref"]},
                "level_note": c["note"],
                "technique": c["technique"],
            })
        else:
            na.append({"property_id": pid, "reason": NOT_APPLICABLE.get(pid, NOT_YET)})
    m = {
        "version": 1,
        "setup_cmd": "bin/setup",
        "hooks": {
            "guard": "TYPHON_VERIF",
            "enable": "no build step: checks import typhon from /repo's working tree with TYPHON_VERIF=1; all "
                      "instrumentation is installed by the harness through module-level names (no source hooks so far)",
            "baseline_off_cmd": "cd /repo && env -u TYPHON_VERIF /venv/bin/python -m pytest -ra -q -p no:cacheprovider "
                                "--timeout=900 --continue-on-collection-errors",
            "source_commits": [],
            "add_only": True,
        },
        "engines": [{"name": "tlc+replay", "path": "/verif/bin/check",
                     "serves_properties": sorted(CHECKS),
                     "kind_free_text": "TLA+ specifications under /verif/spec checked by TLC; TLC-generated cases replayed "
                                       "into typhon and recorded typhon traces validated by TLC"}],
        "checks": checks,
        "not_applicable": na,
        "notes": "See DESIGN.md. Exit codes: 0 held/known findings only, 1 VIOLATION, 2 machinery failure.",
    }
    with open(os.path.join(VERIF, "MANIFEST.json"), "w") as f:
        json.dump(m, f, indent=1)


if __name__ == "__main__":
    main()
