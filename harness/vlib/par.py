"""Process-parallel replay: workers fill a Collector, the parent merges into the Ctx."""
import multiprocessing as mp
import os
import traceback


class Collector:
    def __init__(self):
        self.evaluations = 0
        self.nontrivial = set()
        self.violations = []
        self._seen = set()
        self.samples = []
        self.traces = 0
        self.extra = {}

    def count(self, n=1, nontrivial_key=None):
        self.evaluations += n
        if nontrivial_key is not None:
            self.nontrivial.add(nontrivial_key)

    def violation(self, fingerprint, replay):
        # the replay record is kept for the first occurrences and for the FIRST occurrence of every fingerprint
        if len(self.violations) < 40 or fingerprint not in self._seen:
            self.violations.append((fingerprint, replay))
        else:
            self.violations.append((fingerprint, None))
        self._seen.add(fingerprint)

    def sample(self, s, cap=3):
        if len(self.samples) < cap:
            self.samples.append(s)

    def bump(self, key, n=1):
        self.extra[key] = self.extra.get(key, 0) + n


def merge(ctx, col):
    ctx.evaluations += col.evaluations
    ctx.nontrivial |= col.nontrivial
    ctx.traces += col.traces
    for fp, rep in col.violations:
        if rep is None and (ctx.pid, fp) not in ctx.known:
            ctx.violations.append((fp, None))
        else:
            ctx.violation(fp, rep)
    for s in col.samples:
        ctx.sample(s)
    for k, v in col.extra.items():
        ctx.notes[k] = ctx.notes.get(k, 0) + v


_FN = None


def _work(chunk):
    col = Collector()
    try:
        for item in chunk:
            _FN(col, item)
    except BaseException:
        return ("error", traceback.format_exc())
    return ("ok", col)


def pmap(ctx, fn, items, procs=None, chunk=None):
    """Run fn(collector, item) for every item, in `procs` forked processes."""
    global _FN
    items = list(items)
    if not items:
        return
    procs = procs or min(16, os.cpu_count() or 1)
    _FN = fn
    if procs <= 1 or len(items) < 4:
        col = Collector()
        for it in items:
            fn(col, it)
        merge(ctx, col)
        return
    chunk = chunk or max(1, len(items) // (procs * 4))
    chunks = [items[i:i + chunk] for i in range(0, len(items), chunk)]
    from .tlc import MachineryError
    with mp.get_context("fork").Pool(procs) as pool:
        it = pool.imap_unordered(_work, chunks)
        for _ in range(len(chunks)):
            try:
                status, res = it.next(timeout=float(os.environ.get("VERIF_CHUNK_TIMEOUT", "900")))
            except mp.TimeoutError:
                pool.terminate()
                raise MachineryError("a replay worker died or hung (no result within the chunk time-out)")
            if status == "error":
                raise MachineryError("replay worker crashed:\n" + res)
            merge(ctx, res)
