"""Apalache runner: inductive-invariant checks (Init => IndInv, IndInv /\\ Next => IndInv') on the *Ind modules."""
import os
import re
import shutil
import subprocess
import tempfile
import time

from .tlc import MachineryError

APALACHE = shutil.which("apalache-mc") or "/opt/veriftools/apalache/bin/apalache-mc"


def check(workdir, module, init, inv, length, cinit=None, timeout=1800, subst=None):
    """Returns (holds, seconds).  `subst` = {literal text: replacement} applied to a copy of the module (constants that Apalache
    wants as definitions, or the deliberate mutation of a negative control)."""
    src = os.path.join(workdir, module + ".tla")
    name = module
    if subst:
        text = open(src).read()
        name = module + "X%d" % (abs(hash(tuple(sorted(subst.items())))) % 100000)
        text = text.replace("MODULE " + module, "MODULE " + name)
        for pat, rep in subst.items():                      # literal text replacement
            if pat not in text:
                raise MachineryError("apalache substitution matched nothing: %r" % pat)
            text = text.replace(pat, rep)
        src = os.path.join(workdir, name + ".tla")
        with open(src, "w") as f:
            f.write(text)
    out = tempfile.mkdtemp(prefix="verif-apa-")
    cmd = [APALACHE, "check", "--init=" + init, "--inv=" + inv, "--length=%d" % length, "--out-dir=" + out]
    if cinit:
        cmd.append("--cinit=" + cinit)
    cmd.append(os.path.basename(src))
    t0 = time.time()
    try:
        p = subprocess.run(cmd, cwd=workdir, text=True, stdout=subprocess.PIPE, stderr=subprocess.STDOUT, timeout=timeout)
    except subprocess.TimeoutExpired:
        raise MachineryError("apalache timed out on %s (%s => %s)" % (module, init, inv))
    finally:
        shutil.rmtree(out, ignore_errors=True)
    dt = time.time() - t0
    if "The outcome is: NoError" in p.stdout and p.returncode == 0:
        return True, dt
    if "The outcome is: Error" in p.stdout and p.returncode == 12:
        return False, dt
    raise MachineryError("apalache failed on %s:\n%s" % (module, p.stdout[-1500:]))


def inductive(ctx, workdir, module, ind_init="IndInit", ind_inv="IndInv", cinit=None, goals=(), negative=None, subst=None,
              timeout=3000):
    """Init => IndInv; IndInv /\\ Next => IndInv'; IndInv => goal for every goal; and a negative control: with the
    mutation `negative` (regex -> replacement) the inductive step must FAIL (so the proof is not vacuous)."""
    rec = {"module": module, "steps": []}
    def step(label, init, inv, length, expect=True, extra=None):
        s = dict(subst or {})
        s.update(extra or {})
        ok, dt = check(workdir, module, init, inv, length, cinit=cinit, subst=s or None, timeout=timeout)
        rec["steps"].append({"obligation": label, "holds": ok, "seconds": round(dt, 1)})
        if ok != expect:
            raise MachineryError("apalache: obligation %r of %s %s" % (label, module, "failed" if expect else
                                                                        "passed although the model was mutated"))
    step("Init => IndInv", "Init", ind_inv, 0)
    step("IndInv /\\ Next => IndInv'", ind_init, ind_inv, 1)
    for g in goals:
        step("IndInv => " + g, ind_init, g, 0)
    if negative:
        step("negative control (mutated model): inductive step must fail", ind_init, ind_inv, 1, expect=False, extra=negative)
    ctx.notes.setdefault("apalache_inductive_invariants", []).append(rec)
    return rec
