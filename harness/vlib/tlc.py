"""Thin runner around TLC: scratch dir, stats parsing, CASE line extraction."""
import json
import os
import re
import shutil
import subprocess
import tempfile
import time

VERIF = os.path.dirname(os.path.dirname(os.path.dirname(os.path.abspath(__file__))))
SPEC = os.path.join(VERIF, "spec")
JAR = "/opt/veriftools/tla/tla2tools.jar:/opt/veriftools/tla/CommunityModules-deps.jar"


class MachineryError(Exception):
    """TLC crashed / timed out / unparsable output: exit 2, never a verdict."""


class TLCResult:
    def __init__(self, out, wall):
        self.out = out
        self.wall = wall
        m = re.search(r"(\d+) states generated, (\d+) distinct states found", out)
        self.generated = int(m.group(1)) if m else 0
        self.distinct = int(m.group(2)) if m else 0
        if not m:
            # simulation mode prints another summary
            m2 = re.search(r"(\d+) states checked", out)
            if m2:
                self.generated = self.distinct = int(m2.group(1))
        m = re.search(r"depth of the complete state graph search is (\d+)", out)
        self.depth = int(m.group(1)) if m else 0
        self.no_error = "No error has been found" in out
        if "Simulation using seed" in out and "Error" not in out:
            self.no_error = True
            m3 = re.search(r"The number of states generated: (\d+)", out)
            if m3:
                self.generated = self.distinct = int(m3.group(1))
        m = re.search(r"Invariant (\S+) is violated", out)
        self.violated = m.group(1) if m else None
        if self.violated is None:
            m = re.search(r"(Temporal properties were violated|Action property [^\n]* is violated|Deadlock reached|Assumption .* is false|The postcondition .* false)", out)
            self.violated = m.group(1) if m else None

    def tagged(self, tag):
        """Yield the decoded JSON payload of every PrintT(<<tag, ToJson(x)>>) line."""
        prefix = '<<"%s", ' % tag
        for line in self.out.splitlines():
            if line.startswith(prefix) and line.endswith(">>"):
                body = line[len(prefix):-2]
                try:
                    yield json.loads(json.loads(body))
                except ValueError as e:
                    raise MachineryError("unparsable %s line: %r (%s)" % (tag, line[:200], e))

    def tuples(self, tag):
        """Yield raw text after the tag of PrintT(<<tag, a, b, ...>>) lines (simple ints/strings)."""
        prefix = '<<"%s", ' % tag
        for line in self.out.splitlines():
            if line.startswith(prefix) and line.endswith(">>"):
                body = "[" + line[len(prefix):-2] + "]"
                body = body.replace("<<", "[").replace(">>", "]").replace("TRUE", "true").replace("FALSE", "false")
                try:
                    yield json.loads(body)
                except ValueError as e:
                    raise MachineryError("unparsable %s tuple: %r (%s)" % (tag, line[:200], e))

    def coverage(self):
        """action name -> (distinct, total) from -coverage output."""
        cov = {}
        for m in re.finditer(r"<(\w+) line \d+, col \d+ to line \d+, col \d+ of module (\w+)>: (\d+):(\d+)", self.out):
            name = m.group(1)
            d, t = int(m.group(3)), int(m.group(4))
            od, ot = cov.get(name, (0, 0))
            cov[name] = (od + d, ot + t)
        return cov


def scratch_dir(*spec_dirs):
    d = tempfile.mkdtemp(prefix="verif-tlc-")
    for sd in ("common",) + tuple(spec_dirs):
        p = os.path.join(SPEC, sd)
        for f in os.listdir(p):
            if f.endswith((".tla", ".cfg")):
                shutil.copy(os.path.join(p, f), d)
    return d


def run_tlc(workdir, module, cfg=None, workers=1, simulate=None, depth=None, seed=None,
            coverage=False, env=None, timeout=900, deadlock=False, dfs=False, extra=(),
            expect_error=False, heap=None):
    """Run TLC on <workdir>/<module>.tla with <cfg>. Raises MachineryError on tool failure."""
    cfg = cfg or module + ".cfg"
    meta = os.path.join(workdir, "meta-%s-%d" % (module, int(time.time() * 1e6) % 10**9))
    cmd = ["java", "-XX:+UseParallelGC"]
    if heap:
        cmd.append("-Xmx" + heap)
    if dfs:
        cmd.append("-Dtlc2.tool.queue.IStateQueue=StateDeque")
    cmd += ["-cp", JAR, "tlc2.TLC", "-workers", str(workers), "-metadir", meta,
            "-noGenerateSpecTE", "-config", cfg]
    if not deadlock:
        cmd.append("-deadlock")
    if simulate is not None:
        cmd += ["-simulate", simulate]
    if depth is not None:
        cmd += ["-depth", str(depth)]
    if seed is not None:
        cmd += ["-seed", str(seed)]
    if coverage:
        cmd += ["-coverage", "1"]
    cmd += list(extra)
    cmd.append(module + ".tla")
    e = dict(os.environ)
    if env:
        e.update({k: str(v) for k, v in env.items()})
    t0 = time.time()
    try:
        p = subprocess.run(cmd, cwd=workdir, env=e, stdout=subprocess.PIPE, stderr=subprocess.STDOUT,
                           timeout=timeout, text=True)
    except subprocess.TimeoutExpired:
        raise MachineryError("TLC timed out after %ss on %s/%s" % (timeout, module, cfg))
    finally:
        shutil.rmtree(meta, ignore_errors=True)
    res = TLCResult(p.stdout, time.time() - t0)
    bad = ("Parsing or semantic analysis failed" in p.stdout or "TLC threw an unexpected exception" in p.stdout
           or "Error: TLC" in p.stdout and "Error: TLC threw" in p.stdout
           or "java.lang." in p.stdout and "Exception" in p.stdout and res.violated is None and not res.no_error)
    if bad:
        raise MachineryError("TLC failed on %s/%s:\n%s" % (module, cfg, p.stdout[-3000:]))
    if not res.no_error and res.violated is None:
        raise MachineryError("TLC ended without verdict on %s/%s:\n%s" % (module, cfg, p.stdout[-3000:]))
    return res


def tla_value(v):
    """Python value -> TLA+ expression text (ints, strs, bools, lists->tuples, sets, dicts->records)."""
    if isinstance(v, bool):
        return "TRUE" if v else "FALSE"
    if isinstance(v, int):
        return str(v) if v >= 0 else "(0-%d)" % (-v)
    if isinstance(v, str):
        return '"' + v.replace("\\", "\\\\").replace('"', '\\"') + '"'
    if isinstance(v, (list, tuple)):
        return "<<" + ", ".join(tla_value(x) for x in v) + ">>"
    if isinstance(v, (set, frozenset)):
        return "{" + ", ".join(tla_value(x) for x in sorted(v, key=repr)) + "}"
    if isinstance(v, dict):
        return "[" + ", ".join("%s |-> %s" % (k, tla_value(x)) for k, x in v.items()) + "]"
    raise TypeError(v)
