"""Run context: evidence accounting, violations, known findings, replay files."""
import json
import os
import random
import shutil
import tempfile
import time

from .tlc import VERIF, MachineryError, run_tlc, scratch_dir


def load_known():
    known, fixed = {}, []
    p = os.path.join(VERIF, "known_findings.txt")
    if os.path.exists(p):
        for line in open(p):
            line = line.strip()
            if not line or line.startswith("#"):
                continue
            if line.startswith("known:"):
                parts = line[len("known:"):].split(None, 2)
                pid = parts[0].split("=", 1)[1]
                fp = parts[1].split("=", 1)[1]
                known[(pid, fp)] = parts[2] if len(parts) > 2 else ""
            elif line.startswith("fixed:"):
                fixed.append(line)
    return known, fixed


class Ctx:
    def __init__(self, pid, tier, seed):
        self.pid, self.tier, self.seed = pid, tier, seed
        self.rng = random.Random(seed)
        self.t0 = time.time()
        self.states = 0
        self.transitions = 0
        self.traces = 0
        self.evaluations = 0
        self.nontrivial = set()
        self.samples = []
        self.violations = []      # (fingerprint, replay dict)
        self._fp_with_replay = set()
        self.known_hits = {}
        self.notes = {}
        self.assumptions = []
        self.undecided = []
        self.tlc_runs = []
        self.exhaustive = False
        self.rule = ""
        self.known, _ = load_known()
        self._scratch = []

    # ---- scratch -------------------------------------------------------
    def tmpdir(self, prefix="verif-"):
        d = tempfile.mkdtemp(prefix=prefix)
        self._scratch.append(d)
        return d

    def tlc_dir(self, *spec_dirs):
        d = scratch_dir(*spec_dirs)
        self._scratch.append(d)
        return d

    def cleanup(self):
        for d in self._scratch:
            shutil.rmtree(d, ignore_errors=True)

    # ---- TLC -------------------------------------------------------------
    def tlc(self, workdir, module, cfg=None, must_hold=True, **kw):
        """Run TLC; account states; a violated invariant of the *model* is a machinery/model error
        unless must_hold=False (expected counterexample configs)."""
        res = run_tlc(workdir, module, cfg, **kw)
        self.states += res.distinct
        self.transitions += res.generated
        self.tlc_runs.append({"module": module, "cfg": cfg or module + ".cfg", "distinct": res.distinct,
                              "generated": res.generated, "wall_s": round(res.wall, 2),
                              "verdict": "ok" if res.violated is None else "violated:" + str(res.violated)})
        if must_hold and res.violated is not None:
            raise MachineryError("model check failed (%s violated) in %s/%s:\n%s"
                                 % (res.violated, module, cfg, res.out[-4000:]))
        if not must_hold and res.violated is None:
            raise MachineryError("expected counterexample missing in %s/%s" % (module, cfg))
        return res

    # ---- accounting ------------------------------------------------------
    def count(self, n=1, nontrivial_key=None):
        self.evaluations += n
        if nontrivial_key is not None:
            self.nontrivial.add(nontrivial_key)

    def sample(self, s, cap=6):
        if len(self.samples) < cap:
            self.samples.append(s)

    def violation(self, fingerprint, replay):
        """Record a disagreement between the real code and the specification."""
        if (self.pid, fingerprint) in self.known:
            self.known_hits.setdefault(fingerprint, 0)
            self.known_hits[fingerprint] += 1
            return
        # every distinct fingerprint keeps (at least) its first replay record, so that each gets its VIOLATION line
        if len(self.violations) < 50 or (replay is not None and fingerprint not in self._fp_with_replay):
            self.violations.append((fingerprint, replay))
        else:
            self.violations.append((fingerprint, None))
        if replay is not None:
            self._fp_with_replay.add(fingerprint)

    # ---- finishing -------------------------------------------------------
    def finish(self):
        os.makedirs(os.path.join(VERIF, "evidence"), exist_ok=True)
        rdir = os.environ.get("VERIF_REPLAY_DIR") or os.path.join(VERIF, "replays")
        os.makedirs(rdir, exist_ok=True)
        cov = {
            "states": self.states, "transitions": self.transitions,
            "traces_validated_against_impl": self.traces,
            "evaluations": self.evaluations,
            "distinct_nontrivial": len(self.nontrivial),
            "rule": self.rule,
            "samples": self.samples or ["(no sample recorded)"],
            "exhaustive": self.exhaustive,
            "tlc_runs": self.tlc_runs,
            "clauses_not_decided": self.undecided,
            "known_findings_hit": self.known_hits,
        }
        cov.update(self.notes)
        ev = {"property_id": self.pid, "tier": self.tier, "seed": self.seed, "level": "model_checking",
              "coverage": cov, "assumptions": self.assumptions,
              "wall_s": round(time.time() - self.t0, 2), "violations": len(self.violations)}
        if not os.environ.get("VERIF_NO_EVIDENCE"):
            with open(os.path.join(VERIF, "evidence", self.pid + ".json"), "w") as f:
                json.dump(ev, f, indent=1, default=str)
        for fp, n in sorted(self.known_hits.items()):
            print("KNOWN-FINDING: property=%s %s (%d scenarios) %s" % (self.pid, fp, n, self.known[(self.pid, fp)]))
        rc = 0
        seen = set()
        for i, (fp, rep) in enumerate(self.violations):
            if fp in seen or rep is None:
                continue
            seen.add(fp)
            path = os.path.join(rdir, "%s-%s-%d.json" % (self.pid, fp.replace("/", "_").replace(" ", "_")[:60], self.seed))
            rep = dict(rep)
            rep.setdefault("property", self.pid)
            rep["fingerprint"] = fp
            with open(path, "w") as f:
                json.dump(rep, f, indent=1, default=str)
            print("VIOLATION property=%s replay=%s" % (self.pid, path))
            rc = 1
        print("%s %s: %d evaluations, %d nontrivial, %d model states, %d traces, %d violations, %.1fs"
              % (self.pid, self.tier, self.evaluations, len(self.nontrivial), self.states, self.traces,
                 len(self.violations), time.time() - self.t0))
        return rc
