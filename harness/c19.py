"""C19 -- retrieval scores against ScoresProps (exact rationals from TLC)."""
import json
import os
from fractions import Fraction

import numpy as np

from vlib.par import pmap
from vlib.tlc import MachineryError


def fr(x):
    return Fraction(x[0], x[1])


def close(a, b, rel=1e-12):
    return abs(float(a) - float(b)) <= rel * max(1.0, abs(float(b)))


def replay(col, case):
    from typhon.retrieval import scores
    obs = np.array(case["obs"], dtype=float)
    est = np.array(case["est"], dtype=float)
    taus = np.array([float(fr(t)) for t in case["taus"]])
    n = len(obs)
    exp = np.array([[float(fr(x)) for x in row] for row in case["score"]])
    rep = {"abstract": {"obs": case["obs"], "est": case["est"], "taus": case["taus"]}}
    def call(label, fn, *a):
        keep = [np.array(x, copy=True) for x in a]
        try:
            r = fn(*a)
        except Exception as ex:
            col.violation(label + "-raises-" + type(ex).__name__, dict(rep, observed=repr(ex)[:200]))
            return None
        if not all(np.array_equal(k, np.asarray(x)) for k, x in zip(keep, a)):
            col.violation(label + "-overwrites-input", dict(rep))
        return r
    # (n, k), (n,) with k = 1, (n, 1)
    y_tau = np.repeat(est[:, None], 3, axis=1)
    got = call("quantile_score", scores.quantile_score, y_tau, obs, taus)
    col.count(1)
    if got is not None and (got.shape != (n, 3) or not np.array_equal(got, exp)):
        col.violation("quantile_score-wrong-value", dict(rep, expected=exp.tolist(), observed=np.asarray(got).tolist()))
    # integer-typed estimates and observations are values like any other
    got = call("quantile_score", scores.quantile_score, y_tau.astype(int), obs.astype(int), taus)
    col.count(1)
    if got is not None and (np.shape(got) != (n, 3) or not np.array_equal(np.asarray(got, dtype=float), exp)):
        col.violation("quantile_score-wrong-value-int-input", dict(rep, expected=exp.tolist(), observed=np.asarray(got).tolist()))
    # integer-typed estimates against observations that are NOT whole numbers (o + 1/2): ScoresProps!PinballHalf
    exph = np.array([[float(fr(x)) for x in row] for row in case["scoreh"]])
    for dt_ in ("int64", "int16"):
        got = call("quantile_score", scores.quantile_score, y_tau.astype(dt_), obs + 0.5, taus)
        col.count(1)
        if got is not None and (np.shape(got) != (n, 3) or not np.allclose(np.asarray(got, dtype=float), exph, rtol=1e-12, atol=0)):
            col.violation("quantile_score-wrong-value-int-estimates-fractional-observations",
                          dict(rep, expected=exph.tolist(), observed=np.asarray(got).tolist()))
    for shape_name, yt, yo in (("n", est.copy(), obs.copy()), ("n1", est.reshape(n, 1), obs.reshape(n, 1)),
                               ("n-vs-n1", est.copy(), obs.reshape(n, 1))):
        got = call("quantile_score", scores.quantile_score, yt, yo, taus[1:2])
        col.count(1)
        if got is not None and not np.array_equal(np.asarray(got).reshape(n), exp[:, 1]):
            col.violation("quantile_score-wrong-value-shape-" + shape_name, dict(rep, expected=exp[:, 1].tolist(),
                                                                                 observed=np.asarray(got).tolist()))
    got = call("mean_quantile_score", scores.mean_quantile_score, y_tau, obs, taus)
    col.count(1)
    expm = [float(fr(x)) for x in case["mean"]]
    if got is not None and not all(close(a, b) for a, b in zip(np.asarray(got).ravel(), expm)):
        col.violation("mean_quantile_score-wrong-value", dict(rep, expected=expm, observed=np.asarray(got).tolist()))
    # a sample of exactly ONE value with three fractions: the mean score per fraction is that value's own score row
    got = call("mean_quantile_score", scores.mean_quantile_score, y_tau[:1], obs[:1], taus)
    col.count(1)
    want1 = [float(fr(x)) for x in case["score"][0]]
    if got is not None and (np.size(got) != 3 or not all(close(a, b) for a, b in zip(np.asarray(got).ravel(), want1))):
        col.violation("mean_quantile_score-wrong-value-single-sample", dict(rep, expected=want1, observed=np.asarray(got).tolist()))
    # a sample of 5000 (the property names samples up to 10^4): the case's observations / estimates repeated and cut;
    # the mean score is the exact mean of the per-element scores TLC printed
    big = 5000
    reps = -(-big // n)
    idx = (list(range(n)) * reps)[:big]
    from fractions import Fraction
    score_fr = [[fr(x) for x in row] for row in case["score"]]
    want_big = [float(sum((score_fr[i][k] for i in idx), Fraction(0)) / big) for k in range(3)]
    got = call("mean_quantile_score", scores.mean_quantile_score, y_tau[idx], obs[idx], taus)
    col.count(1)
    if got is not None and not all(close(a, b, 1e-11) for a, b in zip(np.asarray(got).ravel(), want_big)):
        col.violation("mean_quantile_score-wrong-value-large-sample", dict(rep, n=big, expected=want_big, observed=np.asarray(got).tolist()))
    # inconsistent shapes are rejected
    try:
        scores.quantile_score(y_tau, np.append(obs, 1.0), taus)
        col.violation("inconsistent-shapes-accepted", dict(rep, observed="no ValueError for y_test of length n+1"))
    except ValueError:
        pass
    except Exception as ex:
        col.violation("inconsistent-shapes-raise-" + type(ex).__name__, dict(rep, observed=repr(ex)[:200]))
    # ... also when the number of values happens to be a multiple of n that broadcasts against y_tau
    for label, yt, bad, tt in (("k*n-values-vs-(n,k)", y_tau, np.tile(obs, 3), taus),
                               ("2n-values-vs-(n,1)", y_tau[:, :1].copy(), np.tile(obs, 2), taus[:1])):
        try:
            r = scores.quantile_score(yt, bad, tt)
            col.violation("inconsistent-shapes-accepted", dict(rep, observed="no ValueError for " + label,
                                                               result_shape=list(np.shape(r))))
        except ValueError:
            pass
        except Exception as ex:
            col.violation("inconsistent-shapes-raise-" + type(ex).__name__, dict(rep, observed=repr(ex)[:200]))
        col.count(1)
    # the constant estimate minimising the mean score is a tau-quantile: argmin set over the candidates = TLC's
    V = 4
    for k in range(3):
        vals = []
        for c in range(V + 1):
            r = call("mean_quantile_score", scores.mean_quantile_score, np.full((n, 1), float(c)), obs, taus[k:k + 1])
            vals.append(None if r is None else float(np.asarray(r).ravel()[0]))
        if None in vals:
            continue
        m = min(vals)
        best = sorted(c for c, v in enumerate(vals) if v <= m + 1e-12)
        col.count(1)
        if best != sorted(case["best"][k]):
            col.violation("minimiser-is-not-the-quantile", dict(rep, tau=case["taus"][k], expected=sorted(case["best"][k]),
                                                                 observed=best, quantiles=case["quant"][k]))
    # mape / bias
    truth = np.array(case["truth"], dtype=float)
    for name, fn, key in (("mape", scores.mape, "mape"), ("bias", scores.bias, "bias")):
        got = call(name, fn, est.copy(), truth.copy())
        col.count(1)
        if got is not None and not close(got, fr(case[key])):
            col.violation(name + "-wrong-value", dict(rep, truth=case["truth"], expected=float(fr(case[key])), observed=float(got)))
        # the same values as column vectors (n, 1), and the mixed layouts mape itself ravels
        shapes = [("n1-n1", est.reshape(n, 1), truth.reshape(n, 1))]
        if name == "mape":
            shapes += [("n1-n", est.reshape(n, 1), truth.copy()), ("n-n1", est.copy(), truth.reshape(n, 1))]
        for sname, yp, yt in shapes:
            gs = call(name, fn, yp, yt)
            col.count(1)
            if gs is not None and (np.ndim(gs) != 0 or not close(gs, fr(case[key]))):
                col.violation(name + "-wrong-value-shape-" + sname, dict(rep, truth=case["truth"],
                              expected=float(fr(case[key])), observed=np.asarray(gs, dtype=float).tolist()))
        # (n, 2) arrays: the same samples twice; prediction and truth in DIFFERENT memory layouts (C and Fortran order,
        # a transposed view) - samples are paired by position, not by memory address
        p2 = np.column_stack([est, est[::-1]])
        t2 = np.column_stack([truth, truth[::-1]])
        for lname, pp, tt in (("C-F", np.ascontiguousarray(p2), np.asfortranarray(t2)), ("F-C", np.asfortranarray(p2), np.ascontiguousarray(t2)),
                              ("view-C", np.ascontiguousarray(p2.T).T, np.ascontiguousarray(t2))):
            gk = call(name, fn, pp, tt)
            col.count(1)
            if gk is not None and (np.ndim(gk) != 0 or not close(gk, fr(case[key]))):
                col.violation(name + "-wrong-value-shape-nk-" + lname, dict(rep, truth=case["truth"], expected=float(fr(case[key])),
                                                                           observed=np.asarray(gk, dtype=float).tolist()))
        # narrow integer types with values in the hundreds: the percentage is formed in floating point, not in int16
        gi = call(name, fn, (est * 300).astype("int16"), (truth * 300).astype("int16"))
        col.count(1)
        if got is not None and gi is not None and not close(gi, got):
            col.violation(name + "-wrong-value-int16-input", dict(rep, expected=float(got), observed=float(gi)))
        # order of the samples is irrelevant; a common scale factor cancels
        perm = np.arange(n)[::-1]
        g2 = call(name, fn, est[perm] * 4.0, truth[perm] * 4.0)
        if got is not None and g2 is not None and not close(g2, got):
            col.violation(name + "-not-invariant", dict(rep, observed=[float(got), float(g2)]))
        # ... also a negative one (all-negative truths), and factors of either sign per sample (mixed-sign truths)
        alt = np.where(np.arange(n) % 2 == 0, -2.0, 1.0)
        for label, fac in (("negative-scale", -2.0), ("mixed-sign-truth", alt)):
            g3 = call(name, fn, est * fac, truth * fac)
            col.count(1)
            if got is not None and g3 is not None and not close(g3, got):
                col.violation(name + "-not-invariant-" + label, dict(rep, truth=(truth * fac).tolist(), expected=float(got),
                                                                     observed=float(g3)))
    # p percent too high / too low
    for p in (25.0, 50.0):
        hi, lo = truth * (1 + p / 100), truth * (1 - p / 100)
        for name, fn, pred, want in (("mape", scores.mape, hi, p), ("mape", scores.mape, lo, p),
                                     ("bias", scores.bias, hi, p), ("bias", scores.bias, lo, -p)):
            got = call(name, fn, pred, truth)
            col.count(1)
            if got is not None and not close(got, want):
                col.violation(name + "-percent-law", dict(rep, truth=case["truth"], expected=want, observed=float(got)))
    if len(set(case["obs"])) < len(case["obs"]) or any(len(b) > 1 for b in case["best"]):
        col.nontrivial.add(json.dumps([case["obs"], case["est"]]))


def run(ctx):
    quick = ctx.tier == "quick"
    ctx.rule = ("TLC model-checks the score theorems over all samples of <= MaxN values from 0..4 and all tau = k/8 "
                "(non-negativity, zero iff equal, the minimiser set of the mean pinball loss over the candidates equals the "
                "tau-quantiles among them, percent laws for mape/bias, scale invariance) and emits (sample, estimates) cases "
                "with exact rational scores; the real quantile_score / mean_quantile_score / mape / bias are evaluated on "
                "the same dyadic values in shapes (n,), (n,1), (n,k). Non-trivial: samples with ties or a non-unique "
                "minimiser.")
    d = ctx.tlc_dir("num")
    with open(os.path.join(d, "MCScoresT.cfg"), "w") as f:
        f.write('CONSTANTS V = 4 MaxN = %d Mode = "theorems" NSample = 0\nINIT Init\nNEXT Next\nINVARIANT NonNegative\n'
                'INVARIANT ZeroIffEqual\nINVARIANT ProperScore\nINVARIANT PercentLaws\nINVARIANT ScaleLaw\n' % (3 if quick else 5))
    ctx.tlc(d, "ScoresProps", "MCScoresT.cfg", workers=16, timeout=3000)
    with open(os.path.join(d, "MCScoresC.cfg"), "w") as f:
        f.write('CONSTANTS V = 4 MaxN = %d Mode = "cases" NSample = %d\nINIT Init\nNEXT Next\nINVARIANT Emit\n'
                % ((4, 60) if quick else (5, 600)))
    res = ctx.tlc(d, "ScoresProps", "MCScoresC.cfg", workers=1, seed=ctx.seed, timeout=3000)
    cases = list(res.tagged("CASE"))
    if len(cases) < 50:
        raise MachineryError("too few score cases")
    pmap(ctx, replay, cases)
    ctx.traces += len(cases)
    ctx.sample({k: cases[0][k] for k in ("obs", "est", "taus", "score", "best", "quant")})
