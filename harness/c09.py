"""C09 (partial) -- humidity converters, RH<->VMR, mixed-phase branch logic, lapse-rate bounds."""
import json
from fractions import Fraction

import numpy as np

from numlib import allclose, close, fl, fr, patched
from vlib.par import pmap
from vlib.tlc import MachineryError

REAL_MW_MD = 18.01528e-3 / 28.9645e-3
UNDECIDED = ["positivity, monotonicity and ordering of the Murphy-Koop formulas e_eq_water_mk / e_eq_ice_mk themselves",
             "their agreement to 1e-6 at the triple point"]


def key_frac(k):
    a, b = k.strip("<>").split(",")
    return Fraction(int(a), int(b))


def replay(col, case):
    import typhon.constants as C
    import typhon.physics.atmosphere as A
    v = fl(case["v"])
    m = fr(case["m"])
    rep = {"abstract": {"v": case["v"], "Mw/Md": case["m"]}}
    with patched(C, molar_mass_water=float(m.numerator), molar_mass_dry_air=float(m.denominator)):
        # canary: the stand-ins are "not effective" only if the function still answers with the REAL constants
        try:
            canary = not close(A.vmr2mixing_ratio(0.5), REAL_MW_MD, 1e-9)
        except Exception:
            canary = True
        if not canary:
            col.bump("standin_constants_not_effective")
        else:
            table = (("w2q", A.mixing_ratio2specific_humidity), ("w2x", A.mixing_ratio2vmr), ("q2w", A.specific_humidity2mixing_ratio),
                     ("q2x", A.specific_humidity2vmr), ("x2w", A.vmr2mixing_ratio), ("x2q", A.vmr2specific_humidity))
            for key, fn in table:
                for shape in ("scalar", "array", "0d"):
                    arg = v if shape == "scalar" else np.array([v, v]) if shape == "array" else np.array(v)
                    keep = np.array(arg, copy=True)
                    try:
                        got = fn(arg)
                    except Exception as ex:
                        col.violation(key + "-raises-" + type(ex).__name__, dict(rep, shape=shape, observed=repr(ex)[:200]))
                        continue
                    col.count(1)
                    if not np.array_equal(keep, np.asarray(arg)):
                        col.violation("converter-" + key + "-overwrites-input", dict(rep, shape=shape))
                    want = fl(case[key])
                    # RELATIVE agreement: "exact inverse" has to hold for trace-level mixing ratios, too
                    if not np.all(np.abs(np.asarray(got, dtype=float).ravel() - want) <= 1e-12 * abs(want)):
                        col.violation("converter-" + key + "-wrong-value", dict(rep, shape=shape, expected=want,
                                                                                observed=np.asarray(got).tolist()))
            # inverse pairs and two-step routes on the real functions (the TLC-checked identities)
            pairs = ((A.vmr2specific_humidity, A.specific_humidity2vmr), (A.vmr2mixing_ratio, A.mixing_ratio2vmr),
                     (A.mixing_ratio2specific_humidity, A.specific_humidity2mixing_ratio))
            for f, g in pairs:
                for a, b in ((f, g), (g, f)):
                    try:
                        if v < 1 and not abs(b(a(v)) - v) <= 1e-11 * v:
                            col.violation("converter-not-inverse", dict(rep, pair=[a.__name__, b.__name__], observed=float(b(a(v)))))
                    except ZeroDivisionError:
                        pass
    # RH <-> VMR for an arbitrary saturation function
    es = lambda T: 305.5 + 0 * np.asarray(T, dtype=float)
    try:
        x = A.relative_humidity2vmr(v, 50.0, 300.0, e_eq=es)
        rh = A.vmr2relative_humidity(v, 50.0, 300.0, e_eq=es)
        col.count(2)
        if not close(x, fl(case["rh2x"])) or not close(rh, fl(case["x2rh"])):
            col.violation("rh-vmr-wrong-value", dict(rep, expected=[fl(case["rh2x"]), fl(case["x2rh"])], observed=[float(x), float(rh)]))
        back = A.vmr2relative_humidity(A.relative_humidity2vmr(v, 50.0, 300.0, e_eq=es), 50.0, 300.0, e_eq=es)
        if not close(back, v, 1e-11):
            col.violation("rh-vmr-not-inverse", dict(rep, observed=float(back)))
    except Exception as ex:
        col.violation("rh-vmr-raises-" + type(ex).__name__, dict(rep, observed=repr(ex)[:200]))
    # a saturation function that hands back a STORED array (a lookup table, a memoised field): the table is the caller's
    table = np.array([305.5, 611.0, 1222.0])
    keep = table.copy()
    try:
        stored = lambda T: table
        Tarr = np.array([280.0, 290.0, 300.0])
        first = np.asarray(A.relative_humidity2vmr(v, 50.0, Tarr, e_eq=stored), dtype=float)
        second = np.asarray(A.relative_humidity2vmr(v, 50.0, Tarr, e_eq=stored), dtype=float)
        back = np.asarray(A.vmr2relative_humidity(first, 50.0, Tarr, e_eq=stored), dtype=float)
        col.count(2)
        want = fl(case["rh2x"]) * keep / 305.5
        if not np.array_equal(table, keep):
            col.violation("rh-vmr-overwrites-the-callers-saturation-table", dict(rep, observed=table.tolist()))
        elif not allclose(first, want, 1e-11) or not np.array_equal(first, second) or (v > 0 and not allclose(back, [v] * 3, 1e-11)):
            col.violation("rh-vmr-wrong-with-stored-table", dict(rep, expected=want.tolist(), observed=[first.tolist(), second.tolist(), back.tolist()]))
    except Exception as ex:
        col.violation("rh-vmr-raises-" + type(ex).__name__ + "-stored-table", dict(rep, observed=repr(ex)[:200]))
    # ... and with the default saturation function of both converters (below and above the triple point)
    for T in (233.15, 260.0, 273.16, 300.0):
        try:
            back = A.vmr2relative_humidity(A.relative_humidity2vmr(v, 50000.0, T), 50000.0, T)
            col.count(1)
            if not close(back, v, 1e-11):
                col.violation("rh-vmr-not-inverse-with-default-e_eq", dict(rep, T=T, observed=float(back)))
        except Exception as ex:
            col.violation("rh-vmr-raises-" + type(ex).__name__, dict(rep, observed=repr(ex)[:200]))
    # lapse rate with stand-in constants: g=8, cp=4, Lv=64, Rd=2, Rv=3, T=8 and a saturation function giving ws = v
    #   ws = vmr2mixing_ratio(e_eq(T)/p) = x/(1-x) * Mw/Md with Mw/Md = 1  =>  x = v / (1 + v)
    if v < 1:
        xs = v / (1 + v)
        with patched(C, earth_standard_gravity=8.0, heat_of_vaporization=64.0, gas_constant_dry_air=2.0,
                     gas_constant_water_vapor=3.0, isobaric_mass_heat_capacity=4.0, molar_mass_water=1.0, molar_mass_dry_air=1.0):
            try:
                canary = not close(A.moist_lapse_rate(100.0, 8.0, e_eq=lambda T: 0.0), 9.80665 / 1003.5, 1e-9)
                got = A.moist_lapse_rate(100.0, 8.0, e_eq=lambda T: 100.0 * xs)
                col.count(1)
                if not canary:
                    col.bump("standin_constants_not_effective")
                elif not close(got, fl(case["lapse"]), 1e-11) or not (0 < got <= 2.0 + 1e-15):
                    col.violation("lapse-rate-wrong-value-or-bound", dict(rep, expected=fl(case["lapse"]), observed=float(got)))
            except Exception as ex:
                col.violation("lapse-rate-raises-" + type(ex).__name__, dict(rep, observed=repr(ex)[:200]))
    col.nontrivial.add(json.dumps([case["v"], case["m"]]))


def blend(col, case):
    import typhon.constants as C
    import typhon.physics.atmosphere as A
    ice = lambda T: 3.0 + 0 * np.asarray(T, dtype=float)
    liq = lambda T: 5.0 + 0 * np.asarray(T, dtype=float)
    Ts = {key_frac(k): fl(val) for k, val in case["blend"].items()}
    rep = {"abstract": {"branch_temperatures": sorted(str(t) for t in Ts), "ice": 3, "liquid": 5}}
    tt = Fraction(27316, 100)
    with patched(A, e_eq_ice_mk=ice, e_eq_water_mk=liq):
        arr = np.array([float(t) for t in sorted(Ts)])
        want = np.array([Ts[t] for t in sorted(Ts)])
        # the two joints computed the way a user would: Tt - 23 and Tt in floating point
        joint_lo, joint_hi = C.triple_point_water - 23.0, C.triple_point_water
        # whole-kelvin temperatures as an INTEGER-typed array: the pressures are not whole numbers
        ints = sorted(t for t in Ts if t.denominator == 1)
        try:
            gi = np.asarray(A.e_eq_mixed_mk(np.array([int(t) for t in ints])), dtype=float)
            col.count(len(ints))
            if not allclose(gi, np.array([Ts[t] for t in ints]), 1e-9):
                col.violation("mixed-branch-logic-int-array", dict(rep, expected=[Ts[t] for t in ints], observed=gi.tolist()))
        except Exception as ex:
            col.violation("mixed-raises-" + type(ex).__name__ + "-int-array", dict(rep, observed=repr(ex)[:200]))
        for shape in ("array", "scalar", "0d", "2d", "3d"):
            try:
                if shape == "array":
                    given = arr.copy()
                    got = A.e_eq_mixed_mk(given)
                    # the caller's temperatures are the caller's: untouched, and good for a second call
                    again = A.e_eq_mixed_mk(given) if np.array_equal(given, arr) else None
                    if again is None or not np.array_equal(np.asarray(again), np.asarray(got)):
                        col.violation("mixed-overwrites-its-input", dict(rep, observed=given.tolist()))
                elif shape in ("2d", "3d"):
                    # fields in which every row / plane mixes the three regimes (ice, blend, liquid side by side)
                    reps = 2 if shape == "2d" else 6
                    field = np.stack([np.roll(arr, r) for r in range(reps)])
                    field = field if shape == "2d" else field.reshape(2, 3, len(arr))
                    given = field.copy()
                    got = np.asarray(A.e_eq_mixed_mk(given))
                    if not np.array_equal(given, field):
                        col.violation("mixed-overwrites-its-input", dict(rep, shape=shape))
                    # the same field in Fortran order and as a transposed view: position decides, not memory layout
                    for lname, alt in (("fortran-order", np.asfortranarray(field)), ("transposed-view", np.ascontiguousarray(field.T).T)):
                        g2 = np.asarray(A.e_eq_mixed_mk(alt))
                        if g2.shape != got.shape or not np.array_equal(g2, got):
                            col.violation("mixed-depends-on-memory-layout-" + shape, dict(rep, layout=lname, observed=g2.tolist()))
                    if got.shape != field.shape:
                        col.violation("mixed-wrong-shape-" + shape, dict(rep, observed=list(got.shape)))
                        continue
                    got = np.stack([np.roll(g, -r) for r, g in enumerate(got.reshape(reps, len(arr)))])
                    if not all(allclose(g, want, 1e-9) for g in got):
                        col.violation("mixed-branch-logic-" + shape, dict(rep, expected=want.tolist(), observed=got.tolist()))
                    col.count(got.size)
                    continue
                elif shape == "scalar":
                    got = np.array([A.e_eq_mixed_mk(float(t)) for t in arr])
                else:
                    got = np.array([float(A.e_eq_mixed_mk(np.array(float(t)))) for t in arr])
            except Exception as ex:
                col.violation("mixed-raises-" + type(ex).__name__ + "-" + shape, dict(rep, observed=repr(ex)[:200]))
                continue
            col.count(len(arr))
            if not allclose(got, want, 1e-9):
                col.violation("mixed-branch-logic-" + shape, dict(rep, expected=want.tolist(), observed=np.asarray(got).tolist()))
        try:
            lo, hi = A.e_eq_mixed_mk(joint_lo), A.e_eq_mixed_mk(joint_hi)
            below, above = A.e_eq_mixed_mk(np.nextafter(joint_lo, 0)), A.e_eq_mixed_mk(np.nextafter(joint_hi, 1e9))
            if not (close(lo, 3.0, 1e-9) and close(hi, 5.0, 1e-9) and close(below, 3.0, 1e-9) and close(above, 5.0, 1e-9)):
                col.violation("mixed-discontinuous-at-joint", dict(rep, observed=[float(lo), float(hi), float(below), float(above)]))
        except Exception as ex:
            col.violation("mixed-raises-" + type(ex).__name__, dict(rep, observed=repr(ex)[:200]))
    # non-positive temperatures are rejected
    for fn in (A.e_eq_ice_mk, A.e_eq_water_mk, A.e_eq_mixed_mk):
        for bad in (0.0, -5.0, np.array([250.0, 0.0]), np.array([-1.0, 280.0])):
            try:
                fn(bad)
                col.violation("nonpositive-temperature-accepted", {"abstract": {"fn": fn.__name__, "T": np.asarray(bad).tolist()}})
            except ValueError:
                col.count(1)
            except Exception as ex:
                col.violation("nonpositive-temperature-raises-" + type(ex).__name__, {"abstract": {"fn": fn.__name__}, "observed": repr(ex)[:200]})
    col.nontrivial.add("blend")


def run(ctx):
    ctx.undecided = UNDECIDED
    ctx.rule = ("TLC model-checks on a rational grid (x, q, w in {0, 1/50, 1/10, 1/3, 1/2, 9/10}, Mw/Md in {18/29, 5/8}) that "
                "the six converters are mutually inverse, every two-step route equals the direct one, they are increasing "
                "and map 0 to 0, RH<->VMR are inverse for any saturation value, the mixed-phase blend selects ice / liquid / "
                "the quadratic blend correctly incl. both joints, and the lapse rate lies in (0, g/cp]; the printed exact "
                "values are compared (1e-12) with the real functions on scalars, arrays and 0-d arrays with stand-in constants "
                "/ saturation functions (canary-guarded). Every grid point counts as non-trivial.")
    d = ctx.tlc_dir("num")
    big = ctx.tier != "quick"
    res = ctx.tlc(d, "HumidityProps", "HumidityPropsBig.cfg" if big else "HumidityProps.cfg", workers=1, timeout=1500)
    cases = list(res.tagged("CASE"))
    if len(cases) != (30 if big else 14):
        raise MachineryError("expected 12 humidity grid cases")
    ctx.exhaustive = True
    pmap(ctx, replay, cases, procs=1)
    pmap(ctx, blend, cases[:1], procs=1)
    if ctx.notes.get("standin_constants_not_effective"):
        ctx.notes["canary"] = "stand-in constants did not take effect somewhere: those clauses were NOT exercised"
    ctx.traces += len(cases)
    ctx.sample({k: cases[3][k] for k in ("v", "m", "x2q", "x2w", "lapse")})
