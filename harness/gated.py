"""A ThreadPoolExecutor whose tasks finish in an order chosen by the harness (the 'schedule')."""
import threading
import time
from concurrent.futures import ThreadPoolExecutor


class EventLog:
    def __init__(self):
        self.ev = []
        self.lock = threading.Lock()

    def add(self, kind, i):
        with self.lock:
            self.ev.append([kind, i])


class Gate:
    """Holds every started task until the controller releases it.
    order: list of task numbers (1-based submission index) = the completion order to enforce;
    None = release immediately (ungated)."""
    def __init__(self, order=None, timeout=4.0, rng=None):
        self.order = list(order) if order is not None else None
        self.rng = rng
        self.timeout = timeout
        self.cv = threading.Condition()
        self.started = set()
        self.released = set()
        self.finished = set()
        self.stuck = False
        self.drain = False          # the enforced order is exhausted: whatever else starts runs freely
        self.closed = False
        self.thread = None
        if self.order is not None or rng is not None:
            self.thread = threading.Thread(target=self._control, daemon=True)
            self.thread.start()

    # -- task side
    def on_start(self, i):
        with self.cv:
            self.started.add(i)
            self.cv.notify_all()
            if self.order is None and self.rng is None:
                return
            while i not in self.released and not self.stuck and not self.closed and not self.drain:
                self.cv.wait(0.05)

    def on_finish(self, i):
        with self.cv:
            self.finished.add(i)
            self.cv.notify_all()

    # -- controller
    def _control(self):
        if self.order is not None:
            for i in self.order:
                with self.cv:
                    t0 = time.time()
                    while i not in self.started and not self.closed:
                        self.cv.wait(0.05)
                        if time.time() - t0 > self.timeout:
                            self.stuck = True          # the implementation follows another (maybe valid) mechanism
                            self.cv.notify_all()
                            return
                    self.released.add(i)
                    self.cv.notify_all()
                    t0 = time.time()
                    while i not in self.finished and not self.closed:
                        self.cv.wait(0.05)
                        if time.time() - t0 > self.timeout:
                            self.stuck = True
                            self.cv.notify_all()
                            return
            with self.cv:
                self.drain = True
                self.cv.notify_all()
        else:
            # random schedule: repeatedly release one of the currently held tasks
            while not self.closed:
                with self.cv:
                    held = sorted(self.started - self.released)
                    if held:
                        i = self.rng.choice(held)
                        self.released.add(i)
                        self.cv.notify_all()
                    else:
                        self.cv.wait(0.002)

    def close(self):
        with self.cv:
            self.closed = True
            self.cv.notify_all()


def make_gated_pool(log, gate, counter=None):
    """Returns a ThreadPoolExecutor subclass bound to this log/gate. Task numbers are submission indices."""
    state = {"n": 0, "pools": 0}

    class GatedPool(ThreadPoolExecutor):
        def __init__(self, *a, **k):
            state["pools"] += 1
            super().__init__(*a, **k)

        def submit(self, fn, *args, **kwargs):
            state["n"] += 1
            i = state["n"]
            log.add("submit", i)

            def task():
                log.add("start", i)
                gate.on_start(i)
                try:
                    return fn(*args, **kwargs)
                finally:
                    log.add("finish", i)
                    gate.on_finish(i)
            return super().submit(task)
    GatedPool.state = state
    return GatedPool
