"""C01 -- FileSet.find / `in` / len against FindProps (replay + trace validation), FindDesign by TLC."""
import datetime as dt
import json
import os

import fsmodel
from fsmodel import EMBEDDINGS, LAYOUTS, MAXT, MINT, Tree, filters_of
from vlib.par import pmap
from vlib.tlc import MachineryError, tla_value


def write(path, text):
    with open(path, "w") as f:
        f.write(text)


# --------------------------------------------------------------------------
# 1. Design => Props by TLC
# --------------------------------------------------------------------------
def design_check(ctx, emb_name, layout, T, maxfiles, maxdur, tags, usepre=True, must_hold=True):
    emb = EMBEDDINGS[emb_name]
    levels = LAYOUTS[layout][0]
    d = ctx.tlc_dir("fileset")
    fin = fsmodel.finest(levels)
    back = (emb.span(fin) if fin in emb.levels else 1) if fin else 0
    B = {}
    for l in ("year", "month", "day", "hour"):
        if l in emb.levels:
            allb = emb.boundaries(l, -back - emb.span(l) - 8, T + emb.span(l) + 8)
            floor = max(b for b in allb if b <= -back)          # every Trunc argument is >= -back (or MinT)
            B[l] = {b for b in allb if b >= floor} | {MINT}
        else:
            B[l] = set(range(-back - 2, T + 8)) | {MINT}
    span = {l: (emb.span(l) if l in emb.levels else 1) for l in ("year", "month", "day", "hour")}

    def case_fn(m):
        items = list(m.items())
        return "CASE " + " [] ".join('l = "%s" -> %s' % (k, tla_value(v)) for k, v in items[:-1]) + \
               " [] OTHER -> " + tla_value(items[-1][1])
    write(os.path.join(d, "MCFind.tla"), """---- MODULE MCFind ----
EXTENDS FindDesign
mcB == [l \\in {"year","month","day","hour"} |-> %s]
mcSpan == [l \\in {"year","month","day","hour"} |-> %s]
mcMinT == %s
mcLayout == %s
====
""" % (case_fn(B), case_fn(span), tla_value(MINT), tla_value(levels)))
    write(os.path.join(d, "MCFind.cfg"), """CONSTANTS T = %d Tags = %s MaxFiles = %d MaxDur = %d UsePre = %s MaxT = %d
Layout <- mcLayout
B <- mcB
Span <- mcSpan
MinT <- mcMinT
SPECIFICATION Spec
INVARIANT DesignRefinesProps
""" % (T, tla_value(set(tags)), maxfiles, maxdur, "TRUE" if usepre else "FALSE", MAXT))
    res = ctx.tlc(d, "MCFind", "MCFind.cfg", workers=16, must_hold=must_hold, coverage=must_hold, timeout=7200)
    if must_hold:
        cov = res.coverage()
        for a in ("Scan",) + (("Descend",) if levels else ()):
            if cov.get(a, (0, 0))[1] == 0:
                raise MachineryError("vacuous FindDesign run: action %s never taken (%s)" % (a, layout))
        ctx.notes.setdefault("design_action_coverage", {})[emb_name + ":" + layout] = \
            {k: v for k, v in cov.items() if k in ("Descend", "Prune", "Scan")}
    return res


# --------------------------------------------------------------------------
# 2. cases from TLC
# --------------------------------------------------------------------------
def gen_cases(ctx, T, maxfiles, maxdur, tags, nsample, R, seed):
    d = ctx.tlc_dir("fileset")
    write(os.path.join(d, "MCCases.tla"), "---- MODULE MCCases ----\nEXTENDS FindCases\nmcMinT == %s\nmcR == %s\n====\n"
          % (tla_value(MINT), tla_value(R)))
    write(os.path.join(d, "MCCases.cfg"),
          "CONSTANTS T = %d Tags = %s MaxFiles = %d MaxDur = %d NSample = %d MaxT = %d\nMinT <- mcMinT\nR <- mcR\n"
          "INIT Init\nNEXT Next\nINVARIANT Emit\n" % (T, tla_value(set(tags)), maxfiles, maxdur, nsample, MAXT))
    res = ctx.tlc(d, "MCCases", "MCCases.cfg", workers=1, seed=seed, timeout=7200)
    cases = list(res.tagged("CASE"))
    if not cases:
        raise MachineryError("FindCases produced no case")
    return cases


# --------------------------------------------------------------------------
# 3. replay
# --------------------------------------------------------------------------
def fingerprint(kind, q):
    s, e, xn, xp, white, black = q[:6]
    qual = "xperiod" if xp else "xname" if xn else "filter" if (white or black) else \
        "open" if (s <= MINT or e >= MAXT) else "period"
    return "%s-%s" % (kind, qual)


def call_find(tree, fs, emb, s, e, filters, end_variant=0, **kw):
    from typhon.files.fileset import NoFilesError
    start = emb.t(s)
    end = emb.t(e)
    if end is not None:
        if end_variant == 1:
            end = end - dt.timedelta(seconds=1)             # same abstract end (times sit on ticks)
        elif end_variant == 2:
            end = emb.t(e - 1) + dt.timedelta(microseconds=1)   # probes the `end -= 1us` step from below
    if start is not None and end_variant == 1 and s > 0:
        start = start - dt.timedelta(seconds=1)             # t1 >= s - eps  <=>  t1 >= s
    if end_variant == 3:
        # half a second AFTER the previous tick (a start / end with a non-zero microsecond field): coverage bounds sit on
        # ticks, so  t1 >= t(s-1) + eps  <=>  t1 >= t(s)  and  t0 < t(e-1) + eps  <=>  t0 < t(e)
        if start is not None and emb.t(s - 1) is not None:
            start = emb.t(s - 1) + dt.timedelta(microseconds=500000)
        if end is not None and emb.t(e - 1) is not None:
            end = emb.t(e - 1) + dt.timedelta(microseconds=500000)
    try:
        return list(fs.find(start, end, filters=filters, **kw))
    except NoFilesError:
        return []


def replay_population(col, item):
    case, emb_name, layout, style, opts = item
    emb = EMBEDDINGS[emb_name]
    files = [tuple(f) for f in case["F"]]
    times = {f[0]: (f[1], f[2]) for f in files}
    tree = Tree(files, emb, layout, style)
    try:
        if opts.get("zip"):
            fs, ids_of, path_of = tree.zipped()           # the same tree inside a zip archive (fsspec ZipFileSystem)
        else:
            fs, ids_of, path_of = tree.fileset(), tree.ids, tree.path_of.get
        n = 0
        for q in case["qs"]:
            s, e, xn, xp, white, black, exp = q
            n += 1
            if style.endswith("-notag") and (white or black):
                continue        # the template has no {tag}: placeholder filters have nothing to act on
            fs.exclude_files([path_of(i) for i in xn])
            fs.exclude_times([(emb.t(a), emb.t(b)) for a, b in xp] or None)
            flt = filters_of(white, black)
            before = dict(flt) if flt else flt
            variant = n % 4
            abstract = {"F": case["F"], "query": {"s": s, "e": e, "xnames": xn, "xperiods": xp,
                                                   "white": white, "black": black}}
            concrete = {"embedding": emb_name, "layout": layout, "style": style, "template": tree.tmpl,
                        "end_variant": variant, "file_system": "zip" if opts.get("zip") else "local"}
            try:
                got = ids_of(call_find(tree, fs, emb, s, e, flt, end_variant=variant))
            except Exception as ex:
                col.violation(fingerprint("find-raises-" + type(ex).__name__, q),
                              {"abstract": abstract, "concrete": concrete, "expected": sorted(exp),
                               "observed": repr(ex)})
                continue
            col.count(1)
            if sorted(got) != sorted(exp):
                kind = "find-missing" if set(exp) - set(got) else "find-extra"
                col.violation(fingerprint(kind, q), {"abstract": abstract, "concrete": concrete,
                                                     "expected": sorted(exp), "observed": got})
            elif any(times[a] > times[b] for a, b in zip(got, got[1:])):
                col.violation(fingerprint("find-order", q), {"abstract": abstract, "concrete": concrete,
                                                             "expected": "ordered by (t0,t1)", "observed": got})
            elif before:
                # the caller's filter dictionary is the caller's: unchanged after the call, and good for a second call
                try:
                    again = ids_of(call_find(tree, fs, emb, s, e, flt, end_variant=variant))
                except Exception as ex:
                    again = "raised " + type(ex).__name__
                if flt != before or again != got:
                    col.violation(fingerprint("find-second-call-with-same-filters", q),
                                  {"abstract": abstract, "concrete": concrete, "expected": got, "observed": again,
                                   "filters_after": repr(flt)})
            if any(times[i][1] == s or times[i][0] == e or times[i][0] == e - 1 for i in times) or xp or xn:
                col.nontrivial.add((json.dumps(case["F"]), s, e, json.dumps(xp), json.dumps(xn), layout))
        fs.exclude_files([])
        fs.exclude_times(None)
        # independence of OTHER objects: a copy narrowed to a tag no file carries (and searched once) leaves the answers
        # of the original as they were
        if "{tag}" in tree.tmpl and not opts.get("zip"):
            try:
                cp = fs.copy()
                cp.set_placeholders(tag="ZZ")
                call_find(tree, cp, emb, MINT, MAXT, None)
            except Exception as ex:
                col.violation("copy-raises-" + type(ex).__name__, {"abstract": {"F": case["F"]}, "observed": repr(ex)[:200]})
            else:
                for q in case["qs"][::7]:
                    s, e, xn, xp, white, black, exp = q
                    if xn or xp:
                        continue
                    try:
                        got = ids_of(call_find(tree, fs, emb, s, e, filters_of(white, black)))
                    except Exception as ex:
                        got = "raised " + type(ex).__name__
                    col.count(1)
                    if isinstance(got, str) or sorted(got) != sorted(exp):
                        col.violation(fingerprint("find-changed-by-narrowing-a-copy", q),
                                      {"abstract": {"F": case["F"], "query": {"s": s, "e": e, "white": white, "black": black}},
                                       "concrete": {"embedding": emb_name, "layout": layout, "style": style},
                                       "expected": sorted(exp), "observed": got})
                        break
        if opts.get("contains", True):
            for h, exp in case["cont"]:
                try:
                    got = emb.half(h) in fs
                except Exception as ex:
                    got = "raised " + type(ex).__name__
                col.count(1)
                if got != exp:
                    col.violation("contains", {"abstract": {"F": case["F"], "half_tick": h},
                                               "concrete": {"embedding": emb_name, "layout": layout, "style": style},
                                               "expected": exp, "observed": got})
            try:
                got = len(fs)
            except Exception as ex:
                got = "raised " + type(ex).__name__
            col.count(1)
            if got != case["len"]:
                col.violation("len", {"abstract": {"F": case["F"]}, "concrete": {"embedding": emb_name, "layout": layout},
                                      "expected": case["len"], "observed": got})
    finally:
        tree.remove()


def replay_single_file(col, item):
    """A path without placeholders is a single-file fileset: its coverage is the time_coverage it was given."""
    from typhon.files import FileSet
    from typhon.files.fileset import NoFilesError
    import tempfile
    case, emb_name = item
    emb = EMBEDDINGS[emb_name]
    (fid, t0, t1, tag), = [tuple(f) for f in case["F"]]
    root = tempfile.mkdtemp(prefix="verif-fs1-")
    try:
        path = os.path.join(root, "single_file.dat")
        open(path, "wb").close()
        fs = FileSet(path, time_coverage=(emb.t(t0), emb.t(t1)))
        for q in case["qs"]:
            s, e, xn, xp, white, black, exp = q
            if xn or xp or white or black:
                continue
            try:
                got = [x.path for x in fs.find(emb.t(s), emb.t(e), no_files_error=False)]
            except Exception as ex:
                col.violation("single-file-find-raises-" + type(ex).__name__, {"abstract": {"F": case["F"], "s": s, "e": e}, "observed": repr(ex)[:200]})
                continue
            col.count(1)
            if (got == [path]) != bool(exp) or len(got) > 1:
                col.violation("single-file-find-wrong", {"abstract": {"F": case["F"], "s": s, "e": e}, "concrete": {"embedding": emb_name},
                                                         "expected": bool(exp), "observed": got})
        for h, exp in case["cont"]:
            col.count(1)
            if (emb.half(h) in fs) != exp:
                col.violation("single-file-contains", {"abstract": {"F": case["F"], "half_tick": h}, "expected": exp})
                break
        col.nontrivial.add(("single-file", json.dumps(case["F"])))
    finally:
        import shutil
        shutil.rmtree(root, ignore_errors=True)


def styles_for(case, emb_name=None):
    import datetime as _dt
    durs = {f[2] - f[1] for f in case["F"]}
    st = ["fullend"]
    if emb_name is not None and max(durs) * EMBEDDINGS[emb_name].unit < _dt.timedelta(days=1):
        st.append("partialend")
    if len(durs) == 1:
        st.append("uniform")
    if {f[3] for f in case["F"]} == {1}:
        st += [x + "-notag" for x in st]
    return st


def style_ok(style, layout):
    return not (style.endswith("-notag") and "tag" in LAYOUTS[layout][0])


def pick_style(sts, layout, n):
    ok = [x for x in sts if style_ok(x, layout)]
    return ok[n % len(ok)]


# --------------------------------------------------------------------------
# 4. trace validation (direction B)
# --------------------------------------------------------------------------
def record_session(rng, tid, emb_name, layout, nfiles, T):
    """Random larger population; returns the ndjson record (calls with projected results)."""
    from typhon.files.fileset import NoFilesError
    emb = EMBEDDINGS[emb_name]
    levels = LAYOUTS[layout][0]
    fin = fsmodel.finest(levels)
    maxdur = {"day": emb.span("day") if "day" in emb.levels else 1, "hour": emb.span("hour") if "hour" in emb.levels else 1,
              None: T, "month": T, "year": T}[fin]
    files, seen = [], set()
    while len(files) < nfiles:
        t0 = rng.randrange(0, T)
        t1 = min(T - 1, t0 + rng.choice([0, 0, 1, maxdur, rng.randint(0, maxdur)]))
        tag = rng.choice([1, 2])
        if (t0, t1, tag) in seen:
            continue
        seen.add((t0, t1, tag))
        files.append((len(files) + 1, t0, t1, tag))
    tree = Tree(files, emb, layout, "fullend")
    calls = []
    try:
        fs = tree.fileset()
        for k in range(14):
            s = rng.choice([MINT] + list(range(0, T)))
            e = rng.choice([MAXT] + list(range(max(s, 0) + 1, T + 1)))
            xn = rng.sample([f[0] for f in files], rng.choice([0, 0, 1, 2]))
            xp = []
            if rng.random() < 0.4:
                a = rng.randrange(0, T)
                xp = [[a, min(T - 1, a + rng.choice([0, 1, 3]))]]
            white = rng.choice([[], [], [1], [2], [1, 2]])
            black = rng.choice([[], [], [], [1], [2]])
            fs.exclude_files([tree.path_of[i] for i in xn])
            fs.exclude_times([(emb.t(a), emb.t(b)) for a, b in xp] or None)
            base = {"s": s, "e": e, "xn": xn, "xp": xp, "white": white, "black": black}
            mode = k % 5
            try:
                if mode in (0, 1):
                    srt = mode == 0
                    out = tree.ids(call_find(tree, fs, emb, s, e, filters_of(white, black), sort=srt, only_path=bool(k % 2)))
                    calls.append(dict(base, op="find", sorted=srt, ok=True, out=out))
                elif mode == 2:
                    nb = rng.choice([1, 2, 3, 5])
                    out = [tree.ids(b) for b in call_find(tree, fs, emb, s, e, filters_of(white, black), bundle=nb)]
                    calls.append(dict(base, op="bundle_n", n=nb, ok=True, out=out))
                elif mode == 3:
                    w = rng.choice([1, 2, 4])
                    freq = "%dmin" % int(w * emb.unit.total_seconds() // 60)
                    out = [tree.ids(b) for b in call_find(tree, fs, emb, s, e, filters_of(white, black), bundle=freq)]
                    calls.append(dict(base, op="bundle_w", w=w, ok=True, out=out))
                else:
                    h = rng.randrange(0, 2 * T + 1)
                    calls.append(dict(base, op="in", h=h, ok=True, r=bool(emb.half(h) in fs), s=MINT, e=MAXT,
                                      white=[], black=[]))
                    calls.append(dict(base, op="len", ok=True, r=len(fs), s=MINT, e=MAXT, white=[], black=[]))
            except Exception as ex:
                calls.append(dict(base, op=["find", "find", "bundle_n", "bundle_w", "in"][mode], sorted=True, n=1, w=1, h=0,
                                  ok=False, out=[], r=repr(ex)[:200]))
    finally:
        tree.remove()
    return {"tid": tid, "F": [list(f) for f in files], "G": [], "calls": calls,
            "concrete": {"embedding": emb_name, "layout": layout}}


def validate_traces(ctx, path, n):
    d = ctx.tlc_dir("fileset")
    res = ctx.tlc(d, "FindTrace", "FindTrace.cfg", workers=1, env={"TRACE_FILE": path}, timeout=7200)
    acc = {t[0] for t in res.tuples("ACCEPT")}
    rej = {t[0]: t[1] for t in res.tuples("REJECT")}
    if len(acc) + len(rej) != n:
        raise MachineryError("trace verdicts not total: %d+%d != %d" % (len(acc), len(rej), n))
    return acc, rej


def trace_round(ctx, n_sessions, T=16, nfiles=(6, 14)):
    rng = ctx.rng
    tdir = ctx.tmpdir()
    path = os.path.join(tdir, "find.ndjson")
    recs = []
    combos = [("yearend6h", l) for l in ("flat", "Y", "Y/M", "Y/M/D", "Y/doy", "tag/Y/M/D", "Y/tag/M/D", "Y2/M/D", "fix/Y/M/D",
                                           "Y/M/D/tag", "Y/M/tag/D")] + \
             [("leapday6h", "Y/M/D"), ("monthend6h", "Y/doy"), ("hour15m", "Y/M/D/H"), ("hour15m", "Y/M/D"),
              ("y2seam6h", "Y2/M/D"), ("leapday6h", "Y/doy")]
    for tid in range(1, n_sessions + 1):
        emb_name, layout = combos[tid % len(combos)]
        recs.append(record_session(rng, tid, emb_name, layout, rng.randint(*nfiles), T))
    with open(path, "w") as f:
        for r in recs:
            f.write(json.dumps(r) + "\n")
    acc, rej = validate_traces(ctx, path, n_sessions)
    ctx.traces += len(acc)
    ctx.count(sum(len(r["calls"]) for r in recs))
    for tid, k in sorted(rej.items()):
        r = recs[tid - 1]
        c = r["calls"][k - 1]
        q = (c["s"], c["e"], c["xn"], c["xp"], c["white"], c["black"])
        ctx.violation(fingerprint("trace-" + c["op"] + ("" if c["ok"] else "-raises"), q),
                      {"abstract": {"F": r["F"], "call": c}, "concrete": r["concrete"],
                       "tlc": {"module": "FindTrace", "first_unexplained_call": k}})
    return recs, path


def binding_demo(ctx, recs):
    """Corrupt one recorded result: the trace spec must reject exactly that session."""
    r = json.loads(json.dumps(recs[0]))
    done = False
    for c in r["calls"]:
        if c["op"] == "find" and c["ok"] and c["out"]:
            c["out"] = c["out"][:-1]
            done = True
            break
    if not done:
        return
    tdir = ctx.tmpdir()
    p = os.path.join(tdir, "corrupt.ndjson")
    write(p, json.dumps(r) + "\n")
    acc, rej = validate_traces(ctx, p, 1)
    if not rej:
        raise MachineryError("binding demonstration failed: corrupted find trace accepted")
    ctx.notes["binding_demo"] = "dropping one file from a recorded find() result makes FindTrace reject the session"


def run(ctx):
    quick = ctx.tier == "quick"
    ctx.rule = ("TLC enumerates file populations (<= MaxFiles files [t0,t1,tag] on a tick line) and for each the oracle "
                "answer of FindProps for every period (incl. open ends), filter variant, excluded period and excluded "
                "name; each is replayed on a real directory tree per (embedding, layout, name style). Non-trivial: a "
                "(population, query, layout) where a file boundary coincides with a query boundary (t1 = s, t0 = e, "
                "t0 = e-1) or an exclusion is active.")
    # 1. Design => Props
    if quick:
        design_check(ctx, "yearend6h", "Y/M/D", 10, 2, 4, [1])
        design_check(ctx, "yearend6h", "Y/tag/M/D", 10, 1, 4, [1, 2])
        design_check(ctx, "yearend6h", "Y/M/D/tag", 10, 1, 4, [1, 2])
        design_check(ctx, "hour15m", "Y/M/D/H", 10, 1, 4, [1])
        design_check(ctx, "yearend6h", "Y/M/D", 10, 1, 8, [1], usepre=False, must_hold=False)
    else:
        for layout in ("flat", "Y", "Y/M", "Y/M/D", "Y/doy", "tag/Y/M/D", "Y/tag/M/D", "Y/M/D/tag"):
            design_check(ctx, "yearend6h", layout, 12, 2, 4, [1, 2])
        design_check(ctx, "yearend6h", "Y/M/D", 12, 3, 4, [1])
        design_check(ctx, "leapday6h", "Y/M/D", 12, 2, 4, [1])
        design_check(ctx, "monthend6h", "Y/doy", 12, 2, 4, [1])
        design_check(ctx, "hour15m", "Y/M/D/H", 12, 2, 4, [1, 2])
        design_check(ctx, "yearend6h", "Y/M/D", 12, 1, 8, [1], usepre=False, must_hold=False)
    ctx.notes["precondition_counterexample"] = ("without the 'no longer than one finest directory period' precondition "
                                                "TLC finds a population on which the directory walk loses a file")
    # 2. cases
    if quick:
        cases = gen_cases(ctx, 10, 1, 4, [1], 0, -1, ctx.seed)[::2]
        cases += gen_cases(ctx, 10, 3, 4, [1, 2], 70, -1, ctx.seed)
    else:
        cases = gen_cases(ctx, 12, 1, 4, [1, 2], 0, -1, ctx.seed)
        cases += gen_cases(ctx, 12, 2, 4, [1], 0, -1, ctx.seed)[::3]
        cases += gen_cases(ctx, 12, 3, 4, [1, 2], 1500, -1, ctx.seed)
        cases += gen_cases(ctx, 12, 4, 4, [1, 2], 500, -1, ctx.seed + 1)
    six = [("yearend6h", l) for l in ("flat", "Y", "Y/M", "Y/M/D", "Y/doy", "tag/Y/M/D", "Y/tag/M/D", "Y2/M/D", "YM/D", "fix/Y/M/D",
                                        "Y/M/D/tag", "Y/M/tag/D", "Y/doy/tag")] + \
          [("leapday6h", "Y/M/D"), ("monthend6h", "Y/doy"), ("y2seam6h", "Y2/M/D"), ("hour15m", "Y/M/D/H"),
           ("hour15m", "Y/M/D"), ("leapday6h", "Y/M/D/tag"), ("hour15m", "Y/M/D/tag"), ("leapday6h", "Y/doy"),
           ("leapday6h", "Y/doy/tag")]
    items = []
    for n, c in enumerate(cases):
        if quick:
            emb_name, layout = six[n % len(six)]
            items.append((c, emb_name, layout, pick_style(styles_for(c, emb_name), layout, n), {"zip": n % 5 == 3}))
        else:
            for k, (emb_name, layout) in enumerate(six):
                items.append((c, emb_name, layout, pick_style(styles_for(c, emb_name), layout, n + k),
                              {"contains": k % 3 == 0, "zip": (n + k) % 7 == 3}))
    pmap(ctx, replay_population, items)
    singles = [c for c in cases if len(c["F"]) == 1]
    pmap(ctx, replay_single_file, [(c, list(EMBEDDINGS)[n % len(EMBEDDINGS)]) for n, c in enumerate(singles[:: (3 if quick else 1)])])
    ctx.traces += len(items)
    ctx.sample({"population": cases[-1]["F"], "first_queries_with_oracle": cases[-1]["qs"][:3],
                "replayed_as": list(items[-1][1:4])})
    # 3. trace validation
    recs, path = trace_round(ctx, 60 if quick else 600)
    binding_demo(ctx, recs)
