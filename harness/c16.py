"""C16 -- FileSet.find_closest / fileset[t] against ClosestOK of FindProps."""
import json
import os
import pickle

import c01
import fsmodel
from fsmodel import EMBEDDINGS, LAYOUTS, MAXT, MINT, Tree, filters_of
from vlib.par import pmap
from vlib.tlc import MachineryError


class PickleHandler:
    """Minimal user file handler: the file content is the id written by the harness."""
    def __new__(cls):
        from typhon.files.handlers.common import FileHandler

        def reader(file_info, **kw):
            with open(file_info.path, "rb") as f:
                return int(f.read())
        return FileHandler(reader=reader)


def radius(emb, layout):
    fin = fsmodel.finest(LAYOUTS[layout][0])
    return -1 if fin is None else emb.span(fin)


def closest(fs, tree, t, flt):
    from typhon.files.fileset import NoFilesError
    try:
        r = fs.find_closest(t, filters=flt)
    except NoFilesError:
        return 0
    if r is None:
        return 0
    return tree.ids([r])[0]


def replay_population(col, item):
    case, emb_name, layout, style, R = item
    emb = EMBEDDINGS[emb_name]
    files = [tuple(f) for f in case["F"]]
    tree = Tree(files, emb, layout, style)
    try:
        kw = {}
        if style.startswith("fullend") and (len(files) + case["close"][0][0]) % 2 == 0:
            kw["time_coverage"] = emb.unit        # the names carry their end: a nominal coverage must not replace it
        fs = tree.fileset(handler=PickleHandler(), **kw)
        for h, adm in case["close"]:
            t = emb.half(h)
            conc = {"embedding": emb_name, "layout": layout, "style": style, "R_ticks": R, "timestamp": str(t)}
            try:
                got = closest(fs, tree, t, None)
            except Exception as ex:
                got = "raised " + type(ex).__name__
            col.count(1)
            if got not in adm:
                kind = "none-but-file-exists" if got == 0 else "file-but-none-expected" if adm == [0] else "wrong-file"
                col.violation("closest-" + (kind if not isinstance(got, str) else got.replace(" ", "-")),
                              {"abstract": {"F": case["F"], "half_tick": h, "R": R}, "concrete": conc,
                               "expected_any_of": adm, "observed": got})
            elif got != 0 and h % 4 == 1:
                # fileset[t] reads the chosen file: content written by the harness is its id
                try:
                    data = fs[t]
                except Exception as ex:
                    data = "raised " + type(ex).__name__
                col.count(1)
                if data not in adm:
                    col.violation("getitem", {"abstract": {"F": case["F"], "half_tick": h}, "concrete": conc,
                                              "expected_any_of": adm, "observed": data})
            if len(adm) > 1 or (adm != [0] and not any(2 * f[1] <= h <= 2 * f[2] for f in files)):
                col.nontrivial.add((json.dumps(case["F"]), h, layout))
        # independence of OTHER objects: a copy of the fileset that is narrowed to a tag no file carries (and asked once)
        # leaves the answers of the original as they were
        if "{tag}" in tree.tmpl:
            try:
                cp = fs.copy()
                cp.set_placeholders(tag="ZZ")
                closest(cp, tree, emb.half(case["close"][0][0]), None)
            except Exception as ex:
                col.violation("copy-raises-" + type(ex).__name__, {"abstract": {"F": case["F"]}, "observed": repr(ex)[:200]})
            else:
                for h, adm in case["close"]:
                    try:
                        got = closest(fs, tree, emb.half(h), None)
                    except Exception as ex:
                        got = "raised " + type(ex).__name__
                    col.count(1)
                    if got not in adm:
                        col.violation("closest-changed-by-narrowing-a-copy",
                                      {"abstract": {"F": case["F"], "half_tick": h, "R": R},
                                       "concrete": {"embedding": emb_name, "layout": layout, "style": style},
                                       "expected_any_of": adm, "observed": got})
                        break
        # history independence: after the coverage of the files is redefined on the SAME object (time_coverage is
        # part of what a name means for templates without end fields) the answers are those of a fresh object
        if style.startswith("uniform"):
            fs.time_coverage = None                      # the files become discrete
            fresh = tree.fileset(handler=PickleHandler(), time_coverage=None)
            for h, _ in case["close"]:
                t = emb.half(h)
                try:
                    a, b = closest(fs, tree, t, None), closest(fresh, tree, t, None)
                except Exception as ex:
                    col.violation("closest-raises-" + type(ex).__name__ + "-after-time_coverage-change",
                                  {"abstract": {"F": case["F"], "half_tick": h}, "observed": repr(ex)[:200]})
                    break
                col.count(1)
                if a != b:
                    col.violation("closest-depends-on-earlier-time_coverage", {"abstract": {"F": case["F"], "half_tick": h},
                                  "concrete": {"embedding": emb_name, "layout": layout, "style": style},
                                  "expected": b, "observed": a})
                    break
    finally:
        tree.remove()


def failed_read(col, fmt):
    """Compressed files and a handler whose read fails once: fileset[t] raises, and afterwards the same object still answers
    find_closest(t) / fileset[t] with files OF THE FILESET (the answers it gave before the failure)."""
    import datetime as dt
    import shutil
    import tempfile
    from typhon.files import FileSet
    from typhon.files.handlers.common import FileHandler
    root = tempfile.mkdtemp(prefix="verif-c16-")
    try:
        fail = {"on": False}
        def reader(file_info):
            if fail["on"]:
                raise IOError("transient read failure")
            with open(file_info.path) as f:
                return f.read()
        def writer(data, file_info):
            with open(file_info.path, "w") as f:
                f.write(data)
        fs = FileSet(os.path.join(root, "{year}{month}{day}.txt." + fmt), handler=FileHandler(reader=reader, writer=writer))
        days = [dt.datetime(2020, 2, 26) + dt.timedelta(days=2 * i) for i in range(4)]
        for d in days:
            fs[d] = d.strftime("%Y%m%d")
        probes = [days[0] - dt.timedelta(hours=5), days[1], days[1] + dt.timedelta(hours=30), days[3] + dt.timedelta(days=3)]
        def answers():
            out = []
            for t in probes:
                r = fs.find_closest(t)
                out.append((os.path.relpath(r.path, root), fs[t]))
            return out
        before = answers()
        want = [(d.strftime("%Y%m%d") + ".txt." + fmt, d.strftime("%Y%m%d")) for d in (days[0], days[1], days[2], days[3])]
        col.count(len(probes))
        if before != want:      # (day 1 + 30 h is 18 h from day 2's file and 30 h from day 1's)
            col.violation("closest-compressed-wrong", {"abstract": {"compression": fmt}, "expected": want, "observed": before})
            return
        fail["on"] = True
        raised = 0
        for t in probes:
            try:
                fs[t]
            except IOError:
                raised += 1
        fail["on"] = False
        try:
            after = answers()
        except Exception as ex:
            after = "raised " + repr(ex)[:200]
        col.count(len(probes))
        if raised != len(probes) or after != before:
            col.violation("closest-after-failed-read", {"abstract": {"compression": fmt, "failed_reads": raised},
                                                        "expected": before, "observed": after})
        col.nontrivial.add("failed-read-" + fmt)
    finally:
        shutil.rmtree(root, ignore_errors=True)


def single_file(col, _):
    import shutil
    import tempfile
    from typhon.files import FileSet
    root = tempfile.mkdtemp(prefix="verif-fs1-")
    try:
        path = os.path.join(root, "the_only_file.dat")
        with open(path, "wb") as f:
            f.write(b"7")
        emb = EMBEDDINGS["yearend6h"]
        for cov in (None, (emb.t(2), emb.t(5))):
            fs = FileSet(path, time_coverage=cov, handler=PickleHandler())
            for h in (0, 5, 11, 40):
                for flt in (None, {"!tag": "A"}):
                    try:
                        r = fs.find_closest(emb.half(h), filters=flt)
                        got = getattr(r, "path", r)
                        data = fs[emb.half(h)]
                    except Exception as ex:
                        col.violation("single-file-closest-raises-" + type(ex).__name__, {"abstract": {"half_tick": h}, "observed": repr(ex)[:200]})
                        continue
                    col.count(1)
                    if os.path.abspath(got) != os.path.abspath(path) or data != 7:
                        col.violation("single-file-closest-wrong", {"abstract": {"half_tick": h, "coverage": str(cov)}, "observed": [got, data]})
        col.nontrivial.add("single-file")
    finally:
        shutil.rmtree(root, ignore_errors=True)


def record_session(rng, tid, emb_name, layout, nfiles, T):
    emb = EMBEDDINGS[emb_name]
    R = radius(emb, layout)
    fin = fsmodel.finest(LAYOUTS[layout][0])
    maxdur = T if R < 0 or R > T else R
    files, seen = [], set()
    notag = "tag" not in LAYOUTS[layout][0] and rng.random() < 0.6
    while len(files) < nfiles:
        t0 = rng.randrange(0, T)
        t1 = min(T - 1, t0 + rng.choice([0, 0, 1, rng.randint(0, maxdur)]))
        tag = 1 if notag else rng.choice([1, 2])
        if (t0, t1, tag) in seen:
            continue
        seen.add((t0, t1, tag))
        files.append((len(files) + 1, t0, t1, tag))
    tree = Tree(files, emb, layout, "fullend-notag" if notag else "fullend")
    calls = []
    try:
        fs = tree.fileset()
        for k in range(12):
            h = rng.randrange(0, 2 * T + 1)
            xn = rng.sample([f[0] for f in files], rng.choice([0, 0, 1]))
            xp = []
            if rng.random() < 0.3:
                a = rng.randrange(0, T)
                xp = [[a, min(T - 1, a + rng.choice([0, 1]))]]
            white = [] if notag else rng.choice([[], [], [1], [2]])
            black = rng.choice([[], [], [1]]) if not (white or notag) else []
            # aim at the start of an excluded / filtered-out file half of the time (exact-name short cut)
            hit = [f for f in files if f[0] in xn or any(f[1] <= b and f[2] >= a for a, b in xp)
                   or (white and f[3] not in white) or f[3] in black]
            if hit and rng.random() < 0.5:
                h = 2 * rng.choice(hit)[1]
            fs.exclude_files([tree.path_of[i] for i in xn])
            fs.exclude_times([(emb.t(a), emb.t(b)) for a, b in xp] or None)
            base = {"s": MINT, "e": MAXT, "xn": xn, "xp": xp, "white": white, "black": black, "op": "closest",
                    "h": h, "R2": 2 * R if R >= 0 else -1}
            try:
                r = closest(fs, tree, emb.half(h), filters_of(white, black))
                calls.append(dict(base, ok=True, r=r))
            except Exception as ex:
                calls.append(dict(base, ok=False, r=0, err=repr(ex)[:200]))
    finally:
        tree.remove()
    return {"tid": tid, "F": [list(f) for f in files], "G": [], "calls": calls,
            "concrete": {"embedding": emb_name, "layout": layout}}


def run(ctx):
    quick = ctx.tier == "quick"
    ctx.rule = ("TLC enumerates file populations and prints, for every half tick t, the set of admissible answers of "
                "find_closest (covering files if any within one sub-directory period, else the nearest by "
                "min(|t0-t|,|t1-t|), 0 for none); replayed on real trees per (embedding, layout, style), plus fileset[t] "
                "through a user handler. Non-trivial: (population, t, layout) where several answers are admissible or t "
                "lies in a gap and a nearest file must be chosen.")
    # the Design obligation (exact-name short cut lies in Covering; window = find over +-R) is the C01 design run
    c01.design_check(ctx, "yearend6h", "Y/M/D", 10, 1 if quick else 2, 4, [1])
    combos = [("yearend6h", "flat"), ("yearend6h", "Y/M"), ("yearend6h", "Y/M/D"), ("yearend6h", "Y/doy"),
              ("leapday6h", "Y/M/D"), ("hour15m", "Y/M/D/H"), ("hour15m", "Y/M/D"), ("yearend6h", "Y/tag/M/D"),
              ("yearend6h", "Y/M/D/tag")]
    items = []
    T = 10 if quick else 12
    by_R = {}
    for emb_name, layout in combos:
        R = radius(EMBEDDINGS[emb_name], layout)
        Rm = -1 if (R < 0 or R > T) else R          # beyond the window the neighbourhood is the whole line
        by_R.setdefault(Rm, []).append((emb_name, layout, R))
    for Rm, cl in by_R.items():
        if quick:
            cases = c01.gen_cases(ctx, T, 2, 4, [1], 150, Rm, ctx.seed) + c01.gen_cases(ctx, T, 3, 4, [1, 2], 60, Rm, ctx.seed)
        else:
            cases = c01.gen_cases(ctx, T, 2, 4, [1], 0, Rm, ctx.seed)[::2] + c01.gen_cases(ctx, T, 3, 4, [1, 2], 800, Rm, ctx.seed)
        for n, c in enumerate(cases):
            for k, (emb_name, layout, R) in enumerate(cl):
                if quick and (n + k) % len(cl):
                    continue
                items.append((c, emb_name, layout, c01.pick_style(c01.styles_for(c, emb_name), layout, n + k), R))
    pmap(ctx, replay_population, items)
    pmap(ctx, single_file, [0], procs=1)
    pmap(ctx, failed_read, ["gz", "zip", "bz2"], procs=1)
    ctx.traces += len(items)
    ctx.sample({"population": items[0][0]["F"], "admissible_by_half_tick": items[0][0]["close"][:6],
                "replayed_as": list(items[0][1:5])})
    # direction B with filters and exclusions
    n = 80 if quick else 800
    recs = []
    for tid in range(1, n + 1):
        emb_name, layout = combos[tid % len(combos)]
        recs.append(record_session(ctx.rng, tid, emb_name, layout, ctx.rng.randint(3, 10), 12))
    tdir = ctx.tmpdir()
    path = os.path.join(tdir, "closest.ndjson")
    with open(path, "w") as f:
        for r in recs:
            f.write(json.dumps(r) + "\n")
    acc, rej = c01.validate_traces(ctx, path, n)
    ctx.traces += len(acc)
    ctx.count(sum(len(r["calls"]) for r in recs))
    for tid, k in sorted(rej.items()):
        r = recs[tid - 1]
        c = r["calls"][k - 1]
        qual = "xperiod" if c["xp"] else "xname" if c["xn"] else "filter" if (c["white"] or c["black"]) else "plain"
        ctx.violation("trace-closest-" + qual + ("" if c["ok"] else "-raises"),
                      {"abstract": {"F": r["F"], "call": c}, "concrete": r["concrete"],
                       "tlc": {"module": "FindTrace", "first_unexplained_call": k}})
