"""C11 -- histories of write / move / copy / delete on two real filesets against FileOpsProps (TLC simulates
the histories and prescribes the directory contents after every step)."""
import datetime as dt
import json
import os
import pickle
import shutil
import tempfile
import warnings

import numpy as np

from vlib.par import pmap
from vlib.tlc import MachineryError

BASE = dt.datetime(2019, 12, 31)
TICK = dt.timedelta(hours=12)
TAG = {1: "A", 2: "B"}
TAGID = {"A": 1, "B": 2}

START = "{hour}{minute}{second}"
FULLEND = "{end_year}{end_month}{end_day}{end_hour}{end_minute}{end_second}"
# (layout kind, variant) -> template below the root, without extension
TEMPLATES = {
    ("full", 0): "{tag}/{year}/{month}/{day}/" + START + "-" + FULLEND,
    ("full", 1): "{year}/{doy}/{tag}_{year}{month}{day}" + START + "-" + FULLEND,
    ("full", 2): "{tag}/{year}{doy}" + START + "-{end_year}{end_doy}{end_hour}{end_minute}{end_second}",
    ("noend", 0): "{year}/{month}/{day}/{tag}_" + START,
    ("noend", 1): "{tag}-{year}{doy}" + START,
    ("notag", 0): "{year}-{month}-{day}/" + START + "-" + FULLEND,
    ("notag", 1): "{year}/{doy}/f{year}{month}{day}" + START + "-" + FULLEND,
}


def when(t0, dur):
    return BASE + t0 * TICK, BASE + (t0 + dur) * TICK


# ---- content catalogues -------------------------------------------------------------------------
def dataset_content(c):
    import xarray as xr
    return xr.Dataset({"a": ("index", np.array([c, 2 * c, 3 * c], dtype="int64")),
                       "b": ("index", np.array([0.5 * c, np.nan, -1.25], dtype="float64"))},
                      coords={"index": np.array([0, 1, 2], dtype="int64")})


def rich_content(c):
    import xarray as xr
    ds = xr.Dataset({
        "i32": ("x", np.array([c, -c], dtype="int32")),
        "u8": ("x", np.array([c, 200], dtype="uint8")),     # (255 is netCDF's default fill value for unsigned bytes)
        "f": (("x", "y"), np.array([[c + 0.5, np.nan, 1.0], [2.0, 3.0, -4.0]])),
        "when": ("x", np.array(["2020-02-29T12:00:00", "1999-12-31T23:59:59"], dtype="datetime64[ns]")),
        "packed": ("x", np.array([c * 0.5, 10.0])),
        "grp/val": ("grp/z", np.array([c, c + 1, c + 2], dtype="int64")),
    }, coords={"x": np.array([10, 20], dtype="int64")})
    ds["packed"].encoding = {"dtype": "int16", "scale_factor": 0.5, "add_offset": 0.0, "_FillValue": -999}
    return ds


def grouped_content(c):
    """Only GROUP variables (no root-level variable or coordinate), and a structure that depends on the content: another
    variable name and another dimension length - overwriting a period has to replace the file, not add to it."""
    import xarray as xr
    n = 2 + c
    return xr.Dataset({"geo/lat": ("geo/x", np.arange(n, dtype="float64") * c),
                       "data/tb_ch%d" % c: ("data/y", np.arange(n + 1, dtype="int64") + 10 * c)})


class Kind:
    def __init__(self, name, ext, make, same, handler=None, read_args=None, write_args=None):
        self.name, self.ext, self.make, self.same, self.handler, self.read_args = name, ext, make, same, handler, read_args
        self.write_args = write_args


def ds_same(a, b):
    try:
        if set(a.variables) != set(b.variables):
            return False
        for v in a.variables:
            x, y = np.asarray(a[v].values), np.asarray(b[v].values)
            if x.shape != y.shape:
                return False
            if x.dtype.kind in "fc":
                if not np.allclose(x, y.astype(float), rtol=0, atol=1e-12, equal_nan=True):
                    return False
            elif not np.array_equal(x, y):
                return False
        return True
    except Exception:
        return False


def pickle_handler():
    from typhon.files.handlers.common import FileHandler

    def reader(file_info, **kw):
        with open(file_info.path, "rb") as f:
            return pickle.load(f)

    def writer(data, file_info, **kw):
        with open(file_info.path, "wb") as f:
            pickle.dump(data, f)
    return FileHandler(reader=reader, writer=writer)


def args_handler(bound):
    """User handler whose writer multiplies by write_args['scale'] and whose reader divides by read_args['divide']: the
    content only reads back equal if BOTH argument sets reach the user functions.  `bound`: the functions are bound
    methods of an object (with exactly one extra parameter each) instead of plain functions."""
    from typhon.files.handlers.common import FileHandler

    def reader(file_info, divide=1):
        with open(file_info.path, "rb") as f:
            d = pickle.load(f)
        return {"payload": d["payload"] // divide}

    def writer(data, file_info, scale=2):        # (default 2: dropping BOTH argument sets does not cancel out)
        with open(file_info.path, "wb") as f:
            pickle.dump({"payload": data["payload"] * scale}, f)

    class Methods:
        def read(self, file_info, divide=1):
            return reader(file_info, divide=divide)

        def write(self, data, file_info, scale=2):
            return writer(data, file_info, scale=scale)
    if bound:
        m = Methods()
        return FileHandler(reader=m.read, writer=m.write)
    return FileHandler(reader=reader, writer=writer)


KINDS = {
    "pkl-args": Kind("pkl-args", ".pkl", lambda c: {"payload": c}, lambda a, b: a == b, lambda: args_handler(False),
                     {"divide": 7}, {"scale": 7}),
    "pkl-bound": Kind("pkl-bound", ".pkl", lambda c: {"payload": c}, lambda a, b: a == b, lambda: args_handler(True),
                      {"divide": 5}, {"scale": 5}),
    "pkl": Kind("pkl", ".pkl", lambda c: {"payload": c, "blob": bytes(range(c * 3))}, lambda a, b: a == b, pickle_handler),
    # pkl-guard: the fileset restricts {tag} by a regex of its own and a FOREIGN file (tag Q7) lies in its directories
    "pkl-guard": Kind("pkl-guard", ".pkl", lambda c: {"payload": c, "blob": bytes(range(c * 3))}, lambda a, b: a == b, pickle_handler),
    # pkl-falsy: valid contents that are falsy (empty dict, empty list, zero)
    "pkl-falsy": Kind("pkl-falsy", ".pkl", lambda c: [{}, [], 0][c - 1], lambda a, b: type(a) is type(b) and a == b, pickle_handler),
    "pkl.zip": Kind("pkl.zip", ".pkl.zip", lambda c: {"payload": c, "blob": bytes(range(c * 3))}, lambda a, b: a == b, pickle_handler),
    "pkl-post": Kind("pkl-post", ".pkl", lambda c: {"payload": c}, lambda a, b: isinstance(b, dict) and b.get("post_read") is True and b.get("path_ok") is True and b.get("data") == a, pickle_handler),
    "pkl-post.gz": Kind("pkl-post.gz", ".pkl.gz", lambda c: {"payload": c}, lambda a, b: isinstance(b, dict) and b.get("post_read") is True and b.get("path_ok") is True and b.get("data") == a, pickle_handler),
    "nc": Kind("nc", ".nc", dataset_content, ds_same),
    "nc.gz": Kind("nc.gz", ".nc.gz", dataset_content, ds_same),
    "ncrich": Kind("ncrich", ".nc", rich_content, ds_same),
    "ncgrp": Kind("ncgrp", ".nc", grouped_content, ds_same),
    "csv": Kind("csv", ".csv", dataset_content, ds_same, None, {"index_col": 0}),
    "txt.bz2": Kind("txt.bz2", ".txt.bz2", dataset_content, ds_same, None, {"index_col": 0}),
}

# (LX, LY, variant X, variant Y, kind X, kind Y, convert)
CONFIGS = [
    ("full", "full", 0, 1, "pkl", "pkl", False),
    ("full", "noend", 0, 0, "pkl", "pkl.zip", True),
    ("full", "notag", 1, 0, "nc", "nc", False),
    ("noend", "noend", 0, 1, "nc", "csv", True),
    ("notag", "notag", 0, 1, "csv", "nc.gz", True),
    ("full", "full", 1, 0, "ncrich", "ncrich", False),
    ("noend", "full", 1, 0, "txt.bz2", "nc", True),
    ("full", "notag", 0, 1, "pkl.zip", "pkl.zip", True),
    # renaming zip archives WITHOUT conversion: the bytes are kept and the moved file must still read back
    ("full", "noend", 1, 1, "pkl.zip", "pkl.zip", False),
    ("full", "full", 2, 0, "pkl", "pkl", False),           # day-of-year spelling of start and end across New Year
    ("full", "full", 1, 2, "nc", "nc", False),
    ("full", "noend", 0, 1, "pkl-post", "pkl-post", False),   # post_reader is applied on every read, and only on reads
    ("full", "noend", 1, 0, "pkl-post.gz", "pkl-post.gz", False),   # post_reader on compressed files
    ("full", "full", 0, 1, "ncgrp", "ncgrp", False),          # group-only NetCDF data whose structure changes when a period is overwritten
    ("full", "full", 0, 1, "pkl-args", "pkl-bound", True),    # read_args / write_args reach plain and bound-method user functions
    ("full", "noend", 1, 0, "pkl-bound", "pkl-bound", False),
    ("full", "full", 0, 1, "pkl-guard", "pkl", False),        # a user-defined placeholder regex keeps a foreign file out of the fileset
    ("full", "noend", 1, 0, "pkl-guard", "pkl-guard", False),
    ("full", "full", 1, 0, "pkl-falsy", "pkl-falsy", False),  # falsy contents; everything also read back through collect()
]


def post_reader(file_info, data):
    """post-processing hook of the fileset: marks what it has seen (the harness' equality requires the mark)"""
    # (the FileInfo handed to the hook names the fileset's own file - not a temporary decompressed copy)
    return {"post_read": True, "data": data,
            "path_ok": os.path.exists(file_info.path) and os.path.basename(file_info.path).split(".", 1)[-1] in ("pkl", "pkl.gz")}


class Side:
    def __init__(self, root, layout, variant, kind):
        from typhon.files import FileSet
        self.layout, self.kind = layout, KINDS[kind]
        self.root = root
        self.tmpl = os.path.join(root, TEMPLATES[(layout, variant)] + self.kind.ext)
        # one worker thread: netCDF4/HDF5 is not thread-safe (parallel reads segfault); schedules are C10's subject
        kw = {"worker_type": "thread", "max_threads": 1}
        if self.kind.handler is not None:
            kw["handler"] = self.kind.handler()
        if self.kind.read_args:
            kw["read_args"] = self.kind.read_args
        if self.kind.write_args:
            kw["write_args"] = self.kind.write_args
        if self.kind.name.startswith("pkl-post"):
            kw["post_reader"] = post_reader
        self.foreign = None
        if self.kind.name == "pkl-guard":
            kw["placeholder"] = {"tag": "[A-C]"}
        self.fs = FileSet(self.tmpl, name="side-" + os.path.basename(root), **kw)

    def plant(self):
        """A file that looks like one of the fileset's but carries a tag the fileset's own {tag} regex does not admit."""
        if self.kind.name != "pkl-guard":
            return
        from typhon.files import FileSet
        probe = FileSet(self.tmpl)
        s, e = when(1, 1 if self.layout != "noend" else 0)
        self.foreign = probe.get_filename((s, e), fill={"tag": "Q7"})
        os.makedirs(os.path.dirname(self.foreign), exist_ok=True)
        with open(self.foreign, "wb") as f:
            pickle.dump({"payload": 99, "blob": b"foreign"}, f)
        self.foreign_bytes = open(self.foreign, "rb").read()

    def snapshot(self):
        """-> sorted list of [key, content id]; raises AssertionError with a reason for stray / unreadable files"""
        out = []
        for d, _, files in os.walk(self.root):
            for f in files:
                p = os.path.join(d, f)
                if p == self.foreign:
                    continue
                self.fs.info_cache.pop(p, None)
                try:
                    info = self.fs.get_info(p)
                except ValueError:
                    raise AssertionError("stray file " + os.path.relpath(p, self.root))
                t0 = (info.times[0] - BASE) // TICK
                dur = (info.times[1] - info.times[0]) // TICK
                if BASE + t0 * TICK != info.times[0] or info.times[0] + dur * TICK != info.times[1]:
                    raise AssertionError("file with unexpected times " + os.path.relpath(p, self.root))
                tag = TAGID.get(info.attr.get("tag"), 0)
                data = self.fs.read(info)
                cid = next((c for c in (1, 2, 3) if self.kind.same(self.kind.make(c), data)), -1)
                out.append([[int(t0), int(dur), tag], cid])
        if self.foreign is not None:
            if not os.path.exists(self.foreign) or open(self.foreign, "rb").read() != self.foreign_bytes:
                raise AssertionError("touched-foreign file (removed or rewritten): " + os.path.relpath(self.foreign, self.root))
        if self.kind.name in ("pkl-falsy", "pkl-guard"):
            # the same files through collect(): as many contents as files, the same multiset of contents
            from typhon.files.fileset import NoFilesError
            try:
                datas = list(self.fs.collect())
            except NoFilesError:
                datas = []
            cids = sorted(next((c for c in (1, 2, 3) if self.kind.same(self.kind.make(c), d_)), -1) for d_ in datas)
            if cids != sorted(c for _, c in out):
                raise AssertionError("miscollected files, collect() differs from the files on disk: %r vs %r" % (cids, sorted(c for _, c in out)))
        return sorted(out)


def select_kwargs(side, sel):
    kind, a, b = sel
    if kind == "all":
        return {}
    if kind == "period":
        return {"start": BASE + a * TICK, "end": BASE + b * TICK}
    if kind == "tag":
        return {"filters": {"tag": TAG[a]}}
    if kind == "emptylist":
        return {"files": []}
    return {"files": [sorted(side.fs.find(), key=lambda i: (i.times[0], i.times[1], i.attr.get("tag", "")))[0]]}


def replay(col, item):
    case, cfg_index, n = item
    LX, LY, vx, vy, kx, ky, convert = CONFIGS[cfg_index]
    root = tempfile.mkdtemp(prefix="verif-c11-")
    conf = {"LX": LX, "LY": LY, "kinds": [kx, ky], "convert": convert, "variants": [vx, vy]}
    try:
        X = Side(os.path.join(root, "x"), LX, vx, kx)
        Y = Side(os.path.join(root, "y"), LY, vy, ky)
        os.makedirs(X.root), os.makedirs(Y.root)
        X.plant(), Y.plant()
        sides = {"X": X, "Y": Y}
        hist = case["hist"]
        for step, h in enumerate(hist):
            rep = {"abstract": {"history": [{k: x[k] for k in ("op", "f", "id", "c", "sel", "flag")} for x in hist[:step + 1]],
                                "expected_after": {"X": h["dx"], "Y": h["dy"]}}, "concrete": conf}
            S = sides[h["f"]]
            D = sides["Y" if h["f"] == "X" else "X"]
            try:
                with warnings.catch_warnings():
                    warnings.simplefilter("ignore")
                    if h["op"] == "write":
                        t0, dur, tag = h["id"]
                        s, e = when(t0, dur if S.layout != "noend" else 0)
                        fill = {"tag": TAG[tag]} if S.layout != "notag" else None
                        data = S.kind.make(h["c"])
                        if n % 2:
                            key = slice(s, e)
                            S.fs[(key, fill) if fill else key] = data
                        else:
                            S.fs.write(data, S.fs.get_filename((s, e), fill=fill))
                    elif h["op"] == "move":
                        kw = select_kwargs(S, h["sel"])
                        if S.layout == "notag" and "filters" in kw:
                            continue_history = False
                            break
                        # a template string as target makes move() work on a copy of the SOURCE fileset (same handler):
                        # only meaningful without conversion between different handlers
                        target = D.tmpl if (n % 3 == 0 and not convert) else D.fs
                        r = S.fs.move(target, convert=convert or None, copy=h["flag"], **kw)
                    elif h["op"] == "delete":
                        kw = select_kwargs(S, h["sel"])
                        if S.layout == "notag" and "filters" in kw:
                            break
                        import contextlib
                        import io
                        with contextlib.redirect_stdout(io.StringIO()):
                            S.fs.delete(dry_run=h["flag"], **kw)
            except Exception as ex:
                col.violation("%s-raises-%s" % (h["op"], type(ex).__name__), dict(rep, observed=repr(ex)[:300]))
                return
            col.count(1)
            try:
                got = {"X": X.snapshot(), "Y": Y.snapshot()}
            except AssertionError as ex:
                col.violation(h["op"] + "-leaves-" + str(ex).split()[0] + "-file", dict(rep, observed=str(ex)))
                return
            except Exception as ex:
                col.violation(h["op"] + "-result-unreadable-" + type(ex).__name__, dict(rep, observed=repr(ex)[:300]))
                return
            exp = {"X": sorted(h["dx"]), "Y": sorted(h["dy"])}
            if got != exp:
                if h["collide"] and [e[0] for e in got["X"]] == [e[0] for e in exp["X"]] and \
                        [e[0] for e in got["Y"]] == [e[0] for e in exp["Y"]]:
                    col.bump("collision_other_winner")      # admissible: the other colliding source won
                    return
                src_name, dst_name = h["f"], ("Y" if h["f"] == "X" else "X")
                if h["op"] == "move":
                    kind = "original-not-removed" if (not h["flag"] and len(got[src_name]) > len(exp[src_name])) else \
                           "original-removed-on-copy" if (h["flag"] and len(got[src_name]) < len(exp[src_name])) else \
                           "target-wrong-name-or-content"
                elif h["op"] == "delete":
                    kind = "dry-run-deleted" if h["flag"] else "wrong-files-deleted"
                else:
                    kind = "wrong-name-or-content"
                col.violation(h["op"] + "-" + kind, dict(rep, expected=exp, observed=got))
                return
            if h["op"] != "write":
                col.nontrivial.add((json.dumps([[x["op"], x["f"], x["id"], x["c"], x["sel"], x["flag"]] for x in hist[:step + 1]]), cfg_index))
    finally:
        shutil.rmtree(root, ignore_errors=True)


def subresolution(col, seed):
    """Time stamps FINER than the file names (an instrument clock in microseconds, names down to the minute, second or
    millisecond): fileset[stamp] = data stores the data in the name-resolution bin that CONTAINS the stamp (every finer
    field is cut off, as for all coarser resolutions) - so each content is found again in exactly that bin, starts at the
    bin's first instant and reads back equal, and the fileset sees as many files as there are distinct bins."""
    import random
    from datetime import datetime, timedelta
    from typhon.files import FileSet
    rng = random.Random(seed)
    name, res = [("{hour}{minute}", timedelta(minutes=1)), ("{hour}{minute}{second}", timedelta(seconds=1)),
                 ("{hour}{minute}{second}{millisecond}", timedelta(milliseconds=1)),
                 ("{hour}{minute}{second}_{millisecond}", timedelta(milliseconds=1))][seed % 4]
    root = tempfile.mkdtemp(prefix="verif-c11s-")
    try:
        fs = FileSet(os.path.join(root, "{year}{month}{day}", "obs_" + name + ".pkl"), handler=pickle_handler(),
                     worker_type="thread", max_threads=1)
        day = datetime(2018, 1, 1) + timedelta(days=rng.randrange(0, 400))
        stamps = {}
        edge = [0, 1, 499, 500, 501, 999, 999499, 999500, 999501, 999999, 41500, 500000, 59999999 % 1000000]
        for i in range(8):
            st = day + timedelta(hours=rng.choice([0, 12, 23]), minutes=rng.choice([0, 30, 59]), seconds=rng.choice([0, 29, 59]),
                                 microseconds=rng.choice(edge) if i % 2 == 0 else rng.randrange(1000000))
            b = datetime.min + ((st - datetime.min) // res) * res
            stamps[b] = (st, {"payload": i, "blob": bytes(range(i * 3))})
        rep = {"abstract": {"resolution": str(res), "stamps": [str(v[0]) for v in stamps.values()]}, "concrete": {"template": name}}
        for b, (st, data) in stamps.items():
            fs[st] = data
        col.count(1)
        seen = list(fs.find(no_files_error=False))
        if len(seen) != len(stamps):
            col.violation("stored-data-invisible-subresolution-stamp",
                          dict(rep, expected=len(stamps), observed=sorted(os.path.basename(f.path) for f in seen)))
            return
        for b, (st, data) in stamps.items():
            files = list(fs.find(b, b + res, no_files_error=False))
            if len(files) != 1 or files[0].times[0] != b:
                col.violation("stored-data-not-in-its-name-bin", dict(rep, stamp=str(st), bin=str(b),
                                                                     observed=[[os.path.basename(f.path), str(f.times[0])] for f in files]))
                return
            if fs.read(files[0]) != data:
                col.violation("stored-data-reads-back-different-subresolution", dict(rep, stamp=str(st)))
                return
        col.nontrivial.add(("subresolution", seed))
    except Exception as ex:
        col.violation("subresolution-raises-" + type(ex).__name__, {"abstract": {"seed": seed, "template": name}, "observed": repr(ex)[:300]})
    finally:
        shutil.rmtree(root, ignore_errors=True)


def gen_histories(ctx, LX, LY, num, depth, seed):
    d = ctx.tlc_dir("fileset")
    with open(os.path.join(d, "MCOps.cfg"), "w") as f:
        f.write('CONSTANTS LX = "%s" LY = "%s" T = 3 Tags = {1,2} Contents = {1,2} MaxLen = %d\nSPECIFICATION Spec\n'
                'INVARIANT UniqueKeys\nINVARIANT WellProjected\nINVARIANT Emit\nPROPERTY NoInvention\n' % (LX, LY, depth))
    res = ctx.tlc(d, "FileOpsProps", "MCOps.cfg", workers=1, simulate="num=%d" % num, depth=depth + 1, seed=seed, timeout=600)
    return list(res.tagged("CASE"))


def run(ctx):
    quick = ctx.tier == "quick"
    ctx.rule = ("TLC simulates histories of FileOpsProps (write / move / copy / delete with selections by period, tag "
                "filter, explicit file list, dry run; two filesets with layouts full/noend/notag) and records the abstract "
                "directory contents after every step; each history is replayed on two real filesets (8 layout/handler "
                "configurations: pickle, NetCDF incl. dtypes/NaN/datetimes/scale-offset/pseudo groups, CSV, added "
                "compression suffix, convert) and after every step all files on disk are listed, parsed back and read. "
                "Non-trivial: every replayed prefix ending in a move, copy or delete.")
    # exhaustive small model check of the invariants (depth 2)
    d = ctx.tlc_dir("fileset")
    with open(os.path.join(d, "MCOpsX.cfg"), "w") as f:
        f.write('CONSTANTS LX = "full" LY = "noend" T = 2 Tags = {1,2} Contents = {1,2} MaxLen = %d\nSPECIFICATION Spec\n'
                'INVARIANT UniqueKeys\nINVARIANT WellProjected\nPROPERTY NoInvention\n' % (2 if quick else 3))
    ctx.tlc(d, "FileOpsProps", "MCOpsX.cfg", workers=8, timeout=1200)
    items = []
    for ci, cfg in enumerate(CONFIGS):
        cases = gen_histories(ctx, cfg[0], cfg[1], 30 if quick else 400, 5 if quick else 7, ctx.seed + ci)
        if not cases:
            raise MachineryError("no histories for config %d" % ci)
        for n, c in enumerate(cases):
            items.append((c, ci, n))
    pmap(ctx, replay, items)
    pmap(ctx, subresolution, [ctx.seed * 100 + i for i in range(24 if quick else 400)])
    ctx.traces += len(items)
    h = items[0][0]["hist"]
    ctx.sample({"history": [{k: x[k] for k in ("op", "f", "id", "c", "sel", "flag")} for x in h],
                "model_state_after_last_step": {"X": h[-1]["dx"], "Y": h[-1]["dy"]}})
