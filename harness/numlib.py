"""Shared helpers for the numeric (rational-core) properties."""
import contextlib
from fractions import Fraction

import numpy as np


def fr(x):
    return Fraction(x[0], x[1])


def fl(x):
    return float(Fraction(x[0], x[1]))


def close(a, b, rel=1e-12):
    a, b = float(a), float(b)
    if np.isnan(a) or np.isnan(b):
        return np.isnan(a) and np.isnan(b)
    return abs(a - b) <= rel * max(1.0, abs(b))


def allclose(a, b, rel=1e-12):
    a, b = np.asarray(a, dtype=float), np.asarray(b, dtype=float)
    return a.shape == b.shape and bool(np.all(np.abs(a - b) <= rel * np.maximum(1.0, np.abs(b))))


@contextlib.contextmanager
def patched(obj, **attrs):
    """Temporarily replace module-level names (constants, helper functions)."""
    saved = {k: getattr(obj, k) for k in attrs}
    try:
        for k, v in attrs.items():
            setattr(obj, k, v)
        yield
    finally:
        for k, v in saved.items():
            setattr(obj, k, v)
