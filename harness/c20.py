"""C20 -- SRTM30 mosaics against SrtmProps (integer arithmetic in units of half a cell), synthetic tiles."""
import json
import os
import shutil
import tempfile
from collections import OrderedDict

import numpy as np

from vlib.par import pmap
from vlib.tlc import MachineryError, tla_value

ROWS, COLS = 6000, 4800
_TILES = OrderedDict()


def tile_index(name):
    from typhon.topography import SRTM30
    return [t[0] for t in SRTM30._tiles].index(name)


def synth_tile(name):
    t = tile_index(name)
    if t in _TILES:
        _TILES.move_to_end(t)
        return _TILES[t]
    r = (t // 9) * ROWS + np.arange(ROWS, dtype=np.int64)
    c = (t % 9) * COLS + np.arange(COLS, dtype=np.int64)
    a = ((7 * r[:, None] + 3 * c[None, :] + 1000 * t) % 30011).astype(np.int16)
    _TILES[t] = a
    while len(_TILES) > 4:
        _TILES.popitem(last=False)
    return a


def pixel(r, c):
    t = (r // ROWS) * 9 + (c // COLS)
    return (7 * r + 3 * c + 1000 * t) % 30011


# An odd unit coordinate stands for "strictly inside that cell".  Concretely it is placed at the cell's middle, or a
# nanodegree away from the cell's lower / upper border (the model's answer depends on the cell only).
NEAR = 1.0 - 240.0 * 1e-9
VARIANTS = {"mid": (0.0, 0.0, 0.0, 0.0), "below-borders": (-NEAR, -NEAR, -NEAR, -NEAR), "above-borders": (NEAR, NEAR, NEAR, NEAR),
            "sliver": (NEAR, -NEAR, NEAR, -NEAR)}


def corners(rect, variant="mid"):
    v0, v1, h0, h1 = [u + (j if u % 2 else 0.0) for u, j in zip(rect, VARIANTS[variant])]
    return 90.0 - v1 / 240.0, -180.0 + h0 / 240.0, 90.0 - v0 / 240.0, -180.0 + h1 / 240.0     # lat_min, lon_min, lat_max, lon_max


def replay(col, case):
    rect = case["rect"]
    variants = ["mid"]
    if any(u % 2 for u in rect):
        variants += list(VARIANTS)[1:] if case.get("all_variants") else [list(VARIANTS)[1 + (sum(rect) // 2) % 3]]
    for variant in variants:
        replay_variant(col, case, variant)


def replay_variant(col, case, variant):
    from typhon.topography import SRTM30
    rect = case["rect"]
    lat_min, lon_min, lat_max, lon_max = corners(rect, variant)
    aligned = "aligned" if all(u % 2 == 0 for u in rect[:2]) else "unaligned-lat"
    rep = {"abstract": {"rect_units": rect}, "concrete": {"lat_min": lat_min, "lon_min": lon_min, "lat_max": lat_max, "lon_max": lon_max,
                                                         "placement_of_unaligned_edges": variant}}
    saved = SRTM30.get_tile
    try:
        SRTM30.get_tile = staticmethod(synth_tile)
        try:
            lats, lons, z = SRTM30.elevation(lat_min, lon_min, lat_max, lon_max)
        except Exception as ex:
            col.violation("elevation-raises-" + type(ex).__name__, dict(rep, observed=repr(ex)[:200]))
            return
        col.count(1)
        d = 1.0 / 120.0
        exp = {k: case[k] for k in ("r0", "r1", "c0", "c1")}
        if lats.size == 0 or lons.size == 0:
            col.violation("empty-block", dict(rep, expected=exp, observed=[int(lats.size), int(lons.size)]))
            return
        rows = (90.0 - lats) / d - 0.5
        cols = (lons + 180.0) / d - 0.5
        ri, ci = np.rint(rows).astype(int), np.rint(cols).astype(int)
        if np.max(np.abs(rows - ri)) > 1e-6 or np.max(np.abs(cols - ci)) > 1e-6:
            col.violation("not-cell-centres", dict(rep, observed=[lats[:3].tolist(), lons[:3].tolist()]))
            return
        if np.any(np.diff(ri) != 1) or np.any(np.diff(ci) != 1):
            col.violation("rows-or-columns-not-consecutive", dict(rep, observed=[ri[:5].tolist(), ci[:5].tolist()]))
            return
        got = {"r0": int(ri[0]), "r1": int(ri[-1]), "c0": int(ci[0]), "c1": int(ci[-1])}
        if got != exp:
            kind = ("latitude-block-" + aligned) if (got["r0"], got["r1"]) != (exp["r0"], exp["r1"]) else "longitude-block"
            if rect[2] == 0 or rect[3] == 86400:
                kind += "-at-180"
            col.violation("wrong-" + kind, dict(rep, expected=exp, observed=got))
            return
        want = pixel(ri[:, None].astype(np.int64), ci[None, :].astype(np.int64))
        if z.shape != want.shape or not np.array_equal(z, want):
            bad = np.argwhere(z != want)
            zero = bool(np.all(z[z != want] == 0))
            kind = "cells-left-unfilled" if zero else "cells-from-wrong-place"
            if rect[2] == 0 or rect[3] == 86400:
                kind += "-at-180"
            col.violation(kind, dict(rep, observed={"first_bad_cell": [int(ri[bad[0][0]]), int(ci[bad[0][1]])],
                                                    "value": float(z[tuple(bad[0])]), "expected": int(want[tuple(bad[0])]),
                                                    "n_bad": int(len(bad))}))
            return
        for r, c, v in case["corners"]:              # the values TLC printed (oracle for the pixel formula itself)
            if int(z[r - got["r0"], c - got["c0"]]) != v:
                col.violation("corner-cell-value", dict(rep, expected=[r, c, v], observed=float(z[r - got["r0"], c - got["c0"]])))
        if variant == "mid" and sum(rect) % 3 == 0:
            # the corners handed over as 0-d arrays (e.g. `da.min().values`), the SAME objects used for two requests
            args = [np.array(v) for v in (lat_min, lon_min, lat_max, lon_max)]
            try:
                ref = (lats.copy(), lons.copy(), z.copy())
                first = SRTM30.elevation(*args)
                # ... and between the two requests the client post-processes what it was given, in place (0..360 longitudes,
                # flipped latitudes, masked heights): the arrays are the client's, the next answer must not know of it
                same_first = all(np.array_equal(a, b) for a, b in zip(first, ref))
                for arr in first:
                    if arr.flags.writeable:
                        arr += 360
                        arr[...] = arr[::-1]
                second = SRTM30.elevation(*args)
                lats, lons, z = ref
                first = ref if same_first else (ref[0] + 1, ref[1], ref[2])
                col.count(1)
                if [float(a) for a in args] != [lat_min, lon_min, lat_max, lon_max]:
                    col.violation("elevation-overwrites-its-arguments", dict(rep, observed=[float(a) for a in args]))
                elif not all(np.array_equal(a, b) for a, b in zip(first, (lats, lons, z))) \
                        or not all(np.array_equal(a, b) for a, b in zip(second, (lats, lons, z))):
                    col.violation("elevation-differs-for-0d-array-corners", dict(rep, observed=[first[0][:2].tolist(), second[0][:2].tolist()],
                                                                                    note="the client changed the first answer's arrays in place before the second request"))
            except Exception as ex:
                col.violation("elevation-raises-" + type(ex).__name__ + "-0d-array-corners", dict(rep, observed=repr(ex)[:200]))
        names = SRTM30.get_tiles(lat_min, lon_min, lat_max, lon_max)
        col.count(1)
        if sorted(tile_index(n) for n in names) != sorted(case["tiles"]):
            col.violation("get_tiles-wrong" + ("-at-180" if rect[2] == 0 or rect[3] == 86400 else ""),
                          dict(rep, expected=sorted(case["tiles"]), observed=sorted(tile_index(n) for n in names)))
        if len(case["tiles"]) > 1 or any(u % 2 for u in rect):
            col.nontrivial.add(json.dumps(rect))
    finally:
        SRTM30.get_tile = saved


def grids_check(col, _):
    from typhon.topography import SRTM30
    for name, *_b in SRTM30._tiles:
        a = SRTM30.get_native_grids(*SRTM30.get_bounds(name))
        b = SRTM30.get_grids(name)
        col.count(1)
        if a[0].shape != b[0].shape or a[1].shape != b[1].shape or not (np.allclose(a[0], b[0], rtol=0, atol=1e-9) and np.allclose(a[1], b[1], rtol=0, atol=1e-9)):
            col.violation("native-grid-of-tile-bounds-differs", {"abstract": {"tile": name},
                                                                 "observed": [list(a[0].shape), list(b[0].shape)]})


class _Broken(Exception):
    pass


def cache_history(col, case):
    """The REAL get_tile and download_tile against a cache directory; only the network is replaced (urlopen serves a
    zip archive with the tile's .DEM member, or breaks off in the middle of the body).  Tiles are shrunk to 6 x 4 pixels."""
    import io
    import zipfile
    import typhon.topography as TP
    from typhon.topography import SRTM30
    names = {1: "w020n90", 2: "e020n40"}
    H, W = 6, 4
    def content(name):
        t = 1 if name == names[1] else 2
        return (np.arange(H * W).reshape(H, W) * 3 + 100 * t).astype(">i2")
    root = tempfile.mkdtemp(prefix="verif-c20-[v2.1]*?-")      # a legal directory name; brackets, asterisk, question mark
    saved = (TP._data_path, TP.urllib, SRTM30._tile_height, SRTM30._tile_width)
    started = []
    fail_next = [False]

    class Body(io.BytesIO):
        def read(self, *a):
            if fail_next[0] and self.tell() > 0:
                raise _Broken("connection lost")
            return super().read(*(a or (64,)) if fail_next[0] else a)

    garbage_next = [False]

    class FakeRequest:
        @staticmethod
        def urlopen(url, *a, **k):
            name = url.rstrip("/").split("/")[-1].replace(".dem.zip", "")
            started.append(name)
            if garbage_next[0]:
                return io.BytesIO(b"<html><body>502 Bad Gateway</body></html>")
            buf = io.BytesIO()
            with zipfile.ZipFile(buf, "w") as z:
                z.writestr(name.upper() + ".DEM", content(name).tobytes())
            return Body(buf.getvalue())

    class FakeUrllib:
        request = FakeRequest
    try:
        TP._data_path, TP.urllib = root, FakeUrllib
        SRTM30._tile_height, SRTM30._tile_width = H, W
        hist, exp_dl, final = case["hist"], case["downloads"], case["final"]
        # a tile is warm (in the cache from the start) iff the model never starts a transfer for it
        warm = {t for t in final if t not in exp_dl}
        for t in warm:
            content(names[t]).tofile(os.path.join(root, (names[t] + ".dem").upper()))
        for t, outcome in hist:
            fail_next[0] = outcome == "fail"
            garbage_next[0] = outcome == "garbage"
            try:
                y = SRTM30.get_tile(names[t])
                if outcome != "ok":
                    col.violation("broken-transfer-went-unnoticed", {"abstract": case})
                    return
            except _Broken:
                if outcome != "fail":
                    raise
                continue
            except Exception as ex:
                if outcome == "garbage":
                    continue                # whatever error reports that the body was not an archive
                col.violation("get_tile-raises-" + type(ex).__name__ + ("-after-broken-transfer" if any(o != "ok" for _, o in hist) else ""),
                              {"abstract": case, "observed": repr(ex)[:200]})
                return
            finally:
                fail_next[0] = False
                garbage_next[0] = False
            if y.shape != (H, W) or not np.array_equal(y, content(names[t])):
                col.violation("get_tile-wrong-content", {"abstract": case})
                return
        col.count(1)
        if started != [names[t] for t in exp_dl]:
            col.violation("tile-downloaded-although-cached" if len(started) > len(exp_dl) else "tile-not-downloaded",
                          {"abstract": case, "expected": [names[t] for t in exp_dl], "observed": started})
        col.nontrivial.add(json.dumps(case["hist"]) + json.dumps(sorted(warm)))
    finally:
        TP._data_path, TP.urllib, SRTM30._tile_height, SRTM30._tile_width = saved
        shutil.rmtree(root, ignore_errors=True)


def gen(ctx, d, vs, hs):
    with open(os.path.join(d, "MCSrtm.cfg"), "w") as f:
        f.write("CONSTANTS Vs = %s Hs = %s\nINIT Init\nNEXT Next\nINVARIANT CoverLaw\nINVARIANT Emit\n" % (tla_value(set(vs)), tla_value(set(hs))))
    res = ctx.tlc(d, "SrtmProps", "MCSrtm.cfg", workers=1, timeout=900)
    return list(res.tagged("CASE"))


KNOWN_ULP = "decimal-border-edge-float-quotient-crosses-border"


def decimal_edges(col, item):
    """Rectangle edges written as DECIMALS that name a cell border (multiples of 0.05 degree: 63.85, -127.7, ...).  The double
    nearest to such a decimal lies a few 1e-15 degrees beside the border, so the covering law of SrtmProps is evaluated at the
    EXACT rational value of the double (row coordinate p = (90 - lat) * 120, column coordinate (lon + 180) * 120): first row /
    column = the cell containing the edge, last = the cell containing it or, on a border, the one before.  An edge within
    1e-6 cell of a border may also be treated as lying ON it.  Anything else is a violation - filed under the known finding
    KNOWN_ULP exactly when the double-precision quotient (90 - lat) / dlat resp. (lon + 180) / dlon that get_native_grids
    forms falls into another cell than the exact quotient AND the answer is the one that quotient names."""
    from fractions import Fraction as F
    from typhon.topography import SRTM30
    start, stop, width = item
    d = 1.0 / 120.0

    def idx(p, south):
        fl = p.numerator // p.denominator
        return (fl - 1 if p == fl else fl) if south else fl

    def acc(p, south):
        out = {idx(p, south)}
        r = round(p)
        if abs(p - r) < F(1, 10 ** 6):
            out.add(r - 1 if south else r)
        return out
    for k in range(start, stop):
        W = round(-180 + 0.05 * k, 2)
        E = round(W + width, 2)
        L = round(-59.95 + 0.05 * ((k * 7) % 2990), 2)
        S = round(L - width, 2)
        if E > 180 or S < -60:
            continue
        rep = {"abstract": {"decimal_edges": [S, W, L, E]}, "concrete": {"lat_min": S, "lon_min": W, "lat_max": L, "lon_max": E}}
        try:
            lats, lons = SRTM30.get_native_grids(S, W, L, E)
            got = [int(np.rint((90 - lats[0]) / d - 0.5)), int(np.rint((90 - lats[-1]) / d - 0.5)),
                   int(np.rint((lons[0] + 180) / d - 0.5)), int(np.rint((lons[-1] + 180) / d - 0.5))]
        except Exception as ex:
            col.violation("get_native_grids-raises-" + type(ex).__name__ + "-decimal-edge", dict(rep, observed=repr(ex)[:200]))
            continue
        col.count(1)
        edges = [("north", (90 - F(L)) * 120, (90 - L) / SRTM30._dlat, False), ("south", (90 - F(S)) * 120, (90 - S) / SRTM30._dlat, True),
                 ("west", (F(W) + 180) * 120, (W + 180.0) / SRTM30._dlon, False), ("east", (F(E) + 180) * 120, (E + 180) / SRTM30._dlon, True)]
        for g, (side, p, fq, south) in zip(got, edges):
            if g in acc(p, south):
                continue
            if idx(F(float(fq)), south) != idx(p, south) and g == idx(F(float(fq)), south):
                col.violation(KNOWN_ULP, dict(rep, side=side, expected=sorted(acc(p, south)), observed=g))
            else:
                col.violation("wrong-block-decimal-border-edge-" + side, dict(rep, expected=sorted(acc(p, south)), observed=g))
    col.nontrivial.add(("decimal-edges", start, width))


def run(ctx):
    quick = ctx.tier == "quick"
    ctx.rule = ("(unaligned edges are placed at the middle of their cell and a nanodegree from its lower / upper border) "
                "TLC enumerates rectangles with corners from sets of unit coordinates (1/240 degree) around tile corners, tile "
                "edges and +-180 degrees - aligned corners at multiples of 1/8 degree (exact in binary), unaligned ones in the "
                "middle of a cell - checks the covering law and prints the row/column block, the intersecting tiles and the "
                "corner pixels; SRTM30.elevation is run with synthetic tiles whose pixel encodes global row, column and tile, "
                "and every returned cell is compared. Tile-cache histories come from TileCache.tla. Non-trivial: rectangles "
                "with an unaligned corner or spanning several tiles.")
    d = ctx.tlc_dir("topo")
    # Design => Props for the mosaic loop (two pairs of half-open masks, row-major assignment) on a scaled world
    with open(os.path.join(d, "MCMosaic.cfg"), "w") as f:
        f.write("CONSTANTS TR = 2 TC = %d\nSPECIFICATION Spec\nINVARIANT Seamless\nINVARIANT NeverTwice\nINVARIANT NoShapeError\n"
                % (2 if quick else 3))
    ctx.tlc(d, "MosaicDesign", "MCMosaic.cfg", workers=16, timeout=3000)
    near = lambda u: [u - 30, u - 3, u - 1, u, u + 1, u + 30]
    cases = []
    # corner of four tiles (40 N, 140 W), a tile edge away from corners, the southern band edge, and +-180 degrees
    cases += gen(ctx, d, near(12000), near(9600))
    cases += gen(ctx, d, [11999, 12000, 12001, 12030], [1, 3, 30, 60] + [0])         # at 180 W
    cases += gen(ctx, d, [23997, 24000, 24030], [86340, 86370, 86399, 86400])       # at 180 E, 10 S band edge
    cases += gen(ctx, d, [3, 30, 61], [43170, 43199, 43200, 43230])                 # near the pole row, 0 E tile edge
    cases += gen(ctx, d, [35940, 35997, 35999, 36000], [9570, 9600, 9601])          # the last rows above 60 S, the data's edge
    if quick:
        cases = ctx.rng.sample(cases, 80)
        other = gen(ctx, d, near(24000), near(9600 * 5))          # the 10 S / 20 E corner
        cases += ctx.rng.sample(other, 16) + [c for c in other if c["rect"][0] % 30 == 0 and c["rect"][2] % 30 == 0][:8]
    else:
        # every other four-tile corner of the world, a random eighth of the rectangles each
        for vb in (12000, 24000):
            for hk in (2, 3, 5, 6, 8):
                more = gen(ctx, d, near(vb), near(9600 * hk))
                cases += ctx.rng.sample(more, len(more) // 8)
    if not quick:
        for n, c in enumerate(cases):
            c["all_variants"] = n % 3 == 0
    pmap(ctx, replay, cases, procs=6, chunk=5)
    pmap(ctx, grids_check, [0], procs=1)
    pmap(ctx, decimal_edges, [(a, a + 900, w) for w in ((0.1,) if quick else (0.1, 0.15, 0.3, 1.05)) for a in range(0, 7200, 900)])
    with open(os.path.join(d, "MCCache.cfg"), "w") as f:
        f.write("CONSTANTS Tiles = {1, 2} MaxLen = 3\nSPECIFICATION Spec\nINVARIANT AtMostOnce\nINVARIANT Emit\n")
    res = ctx.tlc(d, "TileCache", "MCCache.cfg", workers=1, timeout=300)
    hists = list(res.tagged("CASE"))
    if not hists:
        raise MachineryError("no cache histories")
    pmap(ctx, cache_history, hists, procs=1)
    ctx.traces += len(cases) + len(hists)
    ctx.sample({k: cases[0][k] for k in ("rect", "r0", "r1", "c0", "c1", "tiles")})
