"""C03 -- IntervalTree queries and FileSet.match against IntervalProps / MatchProps."""
import datetime as dt
import json
import os

import numpy as np

from vlib.tlc import MachineryError


def write(path, text):
    with open(path, "w") as f:
        f.write(text)


# ---- concretisations of abstract integer end points -------------------------
EMBED = {
    "int": lambda x: x,
    "neg": lambda x: x - 2,
    "float": lambda x: x + 0.5,
    "small": lambda x: (x - 1) * 0.25,
    "datetime": lambda x: dt.datetime(2019, 12, 31, 12) + dt.timedelta(hours=6 * x),
}


def norm(res):
    return sorted(int(i) + 1 for i in res)      # TLA+ indices are 1-based


def design_check(ctx, lo, hi, maxlen):
    d = ctx.tlc_dir("trees")
    for kind in ("interval", "point"):
        write(os.path.join(d, "MCDesign_%s.cfg" % kind),
              "CONSTANTS Lo = %d Hi = %d MaxLen = %d Kind = \"%s\"\nSPECIFICATION Spec\n"
              "INVARIANT PartitionInv\nINVARIANT DoneInv\nINVARIANT NoDupInv\nINVARIANT NoLossInv\n"
              % (lo, hi, maxlen, kind))
        res = ctx.tlc(d, "IntervalTreeDesign", "MCDesign_%s.cfg" % kind, workers=16, coverage=True)
        cov = res.coverage()
        if cov.get("Next", (0, 0))[1] == 0:
            raise MachineryError("vacuous design run: Visit never taken")
        ctx.notes.setdefault("action_coverage", {})["Visit/" + kind] = cov.get("Next")


def gen_cases(ctx, lo, hi, maxlen):
    d = ctx.tlc_dir("trees")
    write(os.path.join(d, "MCCases.cfg"),
          "CONSTANTS Lo = %d Hi = %d MaxLen = %d\nINIT Init\nNEXT Next\nINVARIANT Emit\nINVARIANT ReplicationLaw\n" % (lo, hi, maxlen))
    res = ctx.tlc(d, "IntervalCases", "MCCases.cfg", workers=1)
    cases = list(res.tagged("CASE"))
    if not cases:
        raise MachineryError("no cases generated")
    return cases


def parse_key(k):
    # ToJson renders tuple-keyed functions with keys like "<<0, 1>>"
    return [int(x) for x in k.strip("<>").split(",")]


def replay_case(ctx, case, emb_name):
    from typhon.trees import IntervalTree
    emb = EMBED[emb_name]
    S = case["S"]
    arr = [[emb(a), emb(b)] for a, b in S]
    if emb_name == "datetime":
        arr = np.array(arr, dtype=object)
    nontrivial = False
    try:
        tree = IntervalTree(arr)
    except Exception as e:  # construction must not fail
        ctx.violation("construct-raises-" + type(e).__name__,
                      {"abstract": case["S"], "concrete": {"embedding": emb_name}, "observed": repr(e)})
        return
    iq = case["iq"]
    keys = list(iq.keys())
    Q = [parse_key(k) for k in keys]
    def check(kind, q, exp, fn):
        nonlocal nontrivial
        try:
            obs = fn()
        except BaseException as e:
            if isinstance(e, KeyboardInterrupt):
                raise
            obs = "raised " + type(e).__name__
        ok = (obs == exp) if not isinstance(obs, str) else False
        if not ok:
            ctx.violation(classify(S, kind, q, exp, obs),
                          {"abstract": {"S": S, "kind": kind, "q": q}, "concrete": {"embedding": emb_name},
                           "expected": exp, "observed": obs,
                           "tlc": {"module": "IntervalCases", "oracle": "Hits/PointHits"}})
    # one batched call and membership per query
    try:
        res = tree.query([[emb(a), emb(b)] for a, b in Q])
        obs_all = [norm(r) for r in res]
    except BaseException as e:
        if isinstance(e, KeyboardInterrupt):
            raise
        obs_all = None
    for n, (k, q) in enumerate(zip(keys, Q)):
        exp = sorted(iq[k])
        if obs_all is not None:
            obs = obs_all[n]
            raw = res[n]
            if obs != exp or len(raw) != len(exp):
                check("query", q, exp, lambda: norm(tree.query([[emb(q[0]), emb(q[1])]])[0]))
        else:
            check("query", q, exp, lambda: norm(tree.query([[emb(q[0]), emb(q[1])]])[0]))
        check("in", q, bool(exp), lambda: (emb(q[0]), emb(q[1])) in tree)
        ctx.count(2)
        if exp and len(exp) < len(S):
            nontrivial = True
    for k, hits in case["pq"].items():
        p = int(k)
        exp = sorted(hits)
        check("points", p, exp, lambda: norm(tree.query_points([emb(p)])[0]))
        check("inpt", p, bool(exp), lambda: emb(p) in tree)
        ctx.count(2)
    if nontrivial:
        ctx.nontrivial.add(json.dumps(S))


def replay_replicated(ctx, case, dtype, reps):
    """Hits is defined interval by interval, so storing the sequence S `reps` times over (S \\o S \\o ...) must answer
    every query with the TLC answer for S shifted by every multiple of Len(S).  Run with compact numeric dtypes and
    more rows than such a dtype can count: the returned row numbers are positions, not values of the bounds' type."""
    from typhon.trees import IntervalTree
    S = case["S"]
    if not S:
        return
    n = len(S)
    arr = np.array([[a + 1, b + 1] for a, b in S] * reps, dtype=dtype)     # + 1: queries reach Lo - 1, uint8 has no -1
    info = {"embedding": "replicated x%d, dtype %s" % (reps, np.dtype(dtype).name)}
    try:
        tree = IntervalTree(arr)
        keys = list(case["iq"].keys())
        Q = [parse_key(k) for k in keys]
        res = tree.query(np.array([[a + 1, b + 1] for a, b in Q], dtype=dtype))
        pts = sorted(int(k) for k in case["pq"])
        pres = tree.query_points(np.array([x + 1 for x in pts], dtype=dtype))
    except Exception as e:
        ctx.violation("replicated-raises-" + type(e).__name__, {"abstract": {"S": S, "reps": reps}, "concrete": info,
                                                                "observed": repr(e)})
        return
    for k, q, r in zip(keys, Q, res):
        exp = sorted(i + j * n for i in case["iq"][k] for j in range(reps))
        ctx.count(1)
        if norm(r) != exp:
            ctx.violation("replicated-query-wrong-result", {"abstract": {"S": S, "reps": reps, "q": q}, "concrete": info,
                                                            "expected": exp[:20], "observed": norm(r)[:20]})
            return
    for p_, r in zip(pts, pres):
        exp = sorted(i + j * n for i in case["pq"][str(p_)] for j in range(reps))
        ctx.count(1)
        if norm(r) != exp:
            ctx.violation("replicated-points-wrong-result", {"abstract": {"S": S, "reps": reps, "p": p_}, "concrete": info,
                                                             "expected": exp[:20], "observed": norm(r)[:20]})
            return


def classify(S, kind, q, exp, obs):
    """Stable fingerprint of a failing abstract scenario class."""
    if isinstance(obs, str):
        return "%s-%s" % (kind, obs.replace(" ", "-"))
    if kind in ("query", "in"):
        lo = min(a for a, b in S)
        hi = max(b for a, b in S)
        if q[0] <= lo and q[1] >= hi:
            return kind + "-covers-whole-span"
    return kind + "-wrong-result"


def random_traces(ctx, n_traces, path):
    """Direction B: record sessions on the real tree, to be judged by IntervalTrace.tla."""
    from typhon.trees import IntervalTree
    rng = ctx.rng
    with open(path, "w") as f:
        for tid in range(1, n_traces + 1):
            n = rng.choice([1, 2, 3, 5, 8, 20, 60])
            span = rng.choice([4, 10, 50])
            S = []
            for _ in range(n):
                a = rng.randint(-span, span)
                b = a + rng.choice([0, 0, 1, 2, rng.randint(0, span)])
                S.append([a, b])
            tree = IntervalTree(np.array(S))
            calls = []
            def rec(op, a, fn):
                try:
                    r, ok = fn(), True
                except Exception as e:
                    r, ok = "raised " + type(e).__name__, False
                calls.append({"op": op, "a": a, "ok": ok, "r": r})
            for _ in range(6):
                Q = []
                for _ in range(rng.randint(1, 4)):
                    a = rng.randint(-span - 1, span + 1)
                    Q.append([a, a + rng.choice([0, 1, 3, 2 * span + 2])])
                rec("query", Q, lambda: [norm(r) for r in tree.query(Q)])
                P = [rng.randint(-span - 1, span + 1) for _ in range(3)]
                rec("points", P, lambda: [norm(r) for r in tree.query_points(P)])
                rec("in", Q[0], lambda: tuple(Q[0]) in tree)
                rec("inpt", P[0], lambda: P[0] in tree)
            f.write(json.dumps({"tid": tid, "S": S, "calls": calls}) + "\n")
            ctx.count(len(calls))


def validate_traces(ctx, path, n_traces, label="IntervalTrace"):
    d = ctx.tlc_dir("trees")
    res = ctx.tlc(d, "IntervalTrace", "IntervalTrace.cfg", workers=1, env={"TRACE_FILE": path})
    acc = {t[0] for t in res.tuples("ACCEPT")}
    rej = {t[0]: t[1] for t in res.tuples("REJECT")}
    if len(acc) + len(rej) != n_traces:
        raise MachineryError("trace verdicts not total: %d+%d != %d" % (len(acc), len(rej), n_traces))
    return acc, rej


def run(ctx):
    quick = ctx.tier == "quick"
    ctx.rule = ("TLC enumerates every sequence of <= MaxLen closed intervals over Lo..Hi and prints Hits/PointHits "
                "for every query interval and point of Lo-1..Hi+1; each (sequence, query) is replayed on the real "
                "IntervalTree under several numeric embeddings. Non-trivial: a stored sequence for which some query "
                "hits a non-empty proper subset of the stored intervals (so pruning decides the answer).")
    # 1. Design => Props
    if quick:
        design_check(ctx, 0, 3, 3)
    else:
        design_check(ctx, 0, 4, 4)
    # 2. spec -> code replay
    cases = gen_cases(ctx, 0, 3, 3) if quick else gen_cases(ctx, 0, 4, 4)
    ctx.exhaustive = True
    embs = ["int", "neg", "float", "datetime"] if quick else list(EMBED)
    if quick:
        # every case once under a rotating embedding, plus a seeded subsample under all
        for n, c in enumerate(cases):
            replay_case(ctx, c, embs[n % len(embs)])
        for c in ctx.rng.sample(cases, 150):
            for e in embs:
                replay_case(ctx, c, e)
    else:
        for c in cases:
            for e in embs:
                replay_case(ctx, c, e)
    # the same stored sequence many times over, in compact dtypes that cannot count the rows
    reps_of = {"int8": 70, "uint8": 130, "float16": 1100, "int16": 12000, "float32": 50}
    pick = [c for c in cases if len(c["S"]) == 3]
    for n, c in enumerate(ctx.rng.sample(pick, 40 if quick else 400)):
        dts = list(reps_of)
        dtp = dts[n % len(dts)]
        if dtp == "int16" and n >= (10 if quick else 50):
            dtp = "int8"
        replay_replicated(ctx, c, dtp, reps_of[dtp])
    ctx.traces += len(cases)
    ctx.sample({"S": cases[len(cases) // 2]["S"], "oracle_iq": cases[len(cases) // 2]["iq"]})
    # 3. code -> spec trace validation
    n_tr = 300 if quick else 3000
    tdir = ctx.tmpdir()
    tpath = os.path.join(tdir, "interval.ndjson")
    random_traces(ctx, n_tr, tpath)
    acc, rej = validate_traces(ctx, tpath, n_tr)
    ctx.traces += len(acc)
    for tid, k in sorted(rej.items())[:20]:
        line = open(tpath).read().splitlines()[tid - 1]
        tr = json.loads(line)
        call = tr["calls"][k - 1]
        ctx.violation("trace-" + (call["r"].replace(" ", "-") if isinstance(call["r"], str) else call["op"] + "-wrong-result"),
                      {"abstract": {"S": tr["S"], "call": call}, "observed": call["r"],
                       "tlc": {"module": "IntervalTrace", "first_unexplained_call": k}})
    # 4. binding demonstration: a corrupted record must be rejected
    lines = open(tpath).read().splitlines()
    tr = json.loads(lines[0])
    for c in tr["calls"]:
        if c["op"] == "in" and c["ok"]:
            c["r"] = not c["r"]
            break
    cpath = os.path.join(tdir, "corrupt.ndjson")
    write(cpath, json.dumps(tr) + "\n")
    acc2, rej2 = validate_traces(ctx, cpath, 1)
    if not rej2:
        raise MachineryError("binding demonstration failed: corrupted trace accepted")
    ctx.notes["binding_demo"] = "flipping one recorded membership result makes IntervalTrace reject the session"
    # 5. FileSet.match against MatchProps
    import c03_match
    c03_match.run(ctx)
