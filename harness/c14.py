"""C14 (partial) -- integrate_column and the rational clauses of IWV / CRH / pressure2height."""
import json
import os

import numpy as np

from numlib import allclose, close, fl, patched
from vlib.par import pmap
from vlib.tlc import MachineryError

UNDECIDED = ["convergence of the hydrostatic and the general IWV formulation for a hydrostatic moist column",
             "isothermal law z = (R T / g) ln(p0 / p)", "standard-atmosphere interpolation in log-pressure BETWEEN the tabulated levels"]


def replay_trapz(col, case):
    from typhon.math import integrate_column
    x = np.array(case["x"], dtype=float)
    rep = {"abstract": {"x": case["x"], "y1": case["y1"]}}
    def chk(label, y, axis, exp2, with_x=True):
        y = np.array(y, dtype=float)
        for variant in ("float", "int"):
            yy = y if variant == "float" else y.astype(int)
            try:
                got = integrate_column(yy, x if with_x else None, axis=axis)
            except Exception as ex:
                col.violation("integrate_column-raises-" + type(ex).__name__, dict(rep, op=label, observed=repr(ex)[:200]))
                return
            col.count(1)
            want = np.array(exp2, dtype=float) / 2.0
            if np.shape(got) != want.shape or not np.array_equal(np.asarray(got, dtype=float), want):
                col.violation("integrate_column-wrong-" + label, dict(rep, axis=axis, expected=want.tolist(),
                                                                      observed=np.asarray(got).tolist()))
                return
    chk("rank1", case["y1"], 0, case["r1"])
    # a single-precision integrand on a double-precision coordinate with a LARGE offset (unix time, radius from the Earth's
    # centre): the spacing lives in the coordinate's own precision
    try:
        big = x + 2.0 ** 31
        got = integrate_column(np.array(case["y1"], dtype="float32"), big, axis=0)
        col.count(1)
        want = np.array(case["r1"], dtype=float) / 2.0
        if np.shape(got) != want.shape or not np.all(np.abs(np.asarray(got, dtype=float) - want) <= 1e-6 * np.maximum(1.0, np.abs(want))):
            col.violation("integrate_column-wrong-float32-on-offset-grid", dict(rep, offset="2^31", expected=want.tolist(),
                                                                                observed=np.asarray(got, dtype=float).tolist()))
    except Exception as ex:
        col.violation("integrate_column-raises-" + type(ex).__name__, dict(rep, op="float32-offset-grid", observed=repr(ex)[:200]))
    # memory layout and views: Fortran-ordered arrays, a view with negative strides, inputs left untouched
    try:
        a3 = np.array(case["a3"], dtype=float)
        want3 = np.array(case["ra3"], dtype=float) / 2.0
        xk = x.copy()
        for lname, arr in (("fortran-order", np.asfortranarray(a3)), ("reversed-twice-view", a3[::-1][::-1]),
                           ("transposed-copy-view", np.ascontiguousarray(a3.transpose(2, 1, 0)).transpose(2, 1, 0))):
            keep = arr.copy()
            got = integrate_column(arr, xk, axis=1)
            col.count(1)
            if np.shape(got) != want3.shape or not np.array_equal(np.asarray(got, dtype=float), want3):
                col.violation("integrate_column-depends-on-memory-layout", dict(rep, layout=lname, expected=want3.tolist(),
                                                                                observed=np.asarray(got).tolist()))
            if not np.array_equal(arr, keep) or not np.array_equal(xk, x):
                col.violation("integrate_column-overwrites-input", dict(rep, layout=lname))
    except Exception as ex:
        col.violation("integrate_column-raises-" + type(ex).__name__, dict(rep, op="memory-layout", observed=repr(ex)[:200]))
    # Homogeneous: the coordinate scaled by 2^-30 (exact in binary; steps of a nanometre or so) scales the integral alike
    try:
        s = 2.0 ** -30
        got = integrate_column(np.array(case["y1"], dtype=float), x * s + 0.5, axis=0)
        col.count(1)
        want = np.array(case["r1"], dtype=float) / 2.0 * s
        if np.shape(got) != want.shape or not np.all(np.abs(np.asarray(got, dtype=float) - want) <= 1e-12 * np.abs(want)):
            col.violation("integrate_column-wrong-on-a-tiny-grid", dict(rep, scale="2^-30", expected=want.tolist(),
                                                                        observed=np.asarray(got).tolist()))
    except Exception as ex:
        col.violation("integrate_column-raises-" + type(ex).__name__, dict(rep, op="tiny-grid", observed=repr(ex)[:200]))
    chk("rank1-default-spacing", case["y1"], 0, case["r1u"], with_x=False)
    chk("rank2-axis0", case["a2"], 0, case["ra2"])
    chk("rank2-axis1", case["b2"], 1, case["rb2"])
    chk("rank2-axis-1", case["b2"], -1, case["rb2"])
    chk("rank3-axis1", case["a3"], 1, case["ra3"])
    chk("rank3-axis2", case["c3"], 2, case["rc3"])
    chk("rank3-axis0", case["d3"], 0, case["rd3"])
    if len(case["x"]) > 2 and case["x"] != sorted(case["x"]) or len(set(np.diff(case["x"]))) > 1:
        col.nontrivial.add(json.dumps([case["x"], case["y1"]]))


def replay_atmos(col, case):
    import typhon.constants as C
    import typhon.physics.atmosphere as A
    p = np.array([fl(v) for v in case["p"]])
    T = np.array([fl(v) for v in case["T"]])
    vmr = np.array([fl(v) for v in case["vmr"]])
    z = np.array([fl(v) for v in case["z"]])
    rep = {"abstract": {k: case[k] for k in ("p", "T", "vmr", "z", "m", "g", "rv")}}
    with patched(C, molar_mass_dry_air=fl(case["m"]), molar_mass_water=1.0, earth_standard_gravity=fl(case["g"]),
                 gas_constant_water_vapor=fl(case["rv"])):
        # canary: did the stand-in constants take effect?  q(1/2) = (1/2) / ((1/2) m + 1/2)
        try:
            real = 28.9645e-3 / 18.01528e-3
            canary = not close(A.vmr2specific_humidity(0.5), 0.5 / (0.5 * real + 0.5), 1e-9)
        except Exception:
            canary = True
        if not canary:
            col.bump("standin_constants_not_effective")
        else:
            for label, fn, want in (("iwv-hydrostatic", lambda: A.integrate_water_vapor(vmr, p), fl(case["iwvh"])),
                                    ("iwv-general", lambda: A.integrate_water_vapor(vmr, p, T, z), fl(case["iwvg"]))):
                try:
                    got = fn()
                except Exception as ex:
                    col.violation(label + "-raises-" + type(ex).__name__, dict(rep, observed=repr(ex)[:200]))
                    continue
                col.count(1)
                if not close(got, want):
                    col.violation(label + "-wrong-value", dict(rep, expected=want, observed=float(got)))
            try:
                got = A.integrate_water_vapor(vmr, p)
                if got < -1e-15 and np.all(np.diff(p) < 0):
                    col.violation("iwv-negative", dict(rep, observed=float(got)))
                # along another axis of a 2-d field
                got2 = A.integrate_water_vapor(np.tile(vmr, (3, 1)), np.tile(p, (3, 1)), axis=1)
                if not allclose(got2, [fl(case["iwvh"])] * 3):
                    col.violation("iwv-hydrostatic-wrong-axis", dict(rep, observed=np.asarray(got2).tolist()))
            except Exception:
                pass
            # the general form (T and z given) on stacked profiles, the level axis last / first
            try:
                tile = lambda v: np.tile(v, (3, 1))
                g_last = A.integrate_water_vapor(tile(vmr), tile(p), tile(T), tile(z), axis=1)
                g_neg = A.integrate_water_vapor(tile(vmr), tile(p), tile(T), tile(z), axis=-1)
                g_first = A.integrate_water_vapor(tile(vmr).T.copy(), tile(p).T.copy(), tile(T).T.copy(), tile(z).T.copy(), axis=0)
                col.count(3)
                for label2, gg in (("axis1", g_last), ("axis-1", g_neg), ("axis0", g_first)):
                    if not allclose(gg, [fl(case["iwvg"])] * 3):
                        col.violation("iwv-general-wrong-" + label2, dict(rep, expected=fl(case["iwvg"]), observed=np.asarray(gg).tolist()))
            except Exception as ex:
                col.violation("iwv-general-raises-" + type(ex).__name__ + "-stacked", dict(rep, observed=repr(ex)[:200]))
            try:
                A.integrate_water_vapor(vmr, p, T=T)
                col.violation("iwv-missing-z-accepted", dict(rep, observed="no ValueError"))
            except ValueError:
                pass
            except Exception as ex:
                col.violation("iwv-missing-z-raises-" + type(ex).__name__, dict(rep, observed=repr(ex)[:200]))
    # pressure2height: R and g as typhon binds them (the default R of density() is bound at import time)
    try:
        R = A.density.__defaults__[0]
        g = C.g
        got = A.pressure2height(p, T)
        col.count(1)
        want = np.array([fl(h) for h in case["heights"]]) * (R / g)
        if not allclose(got, want, rel=1e-11):
            col.violation("pressure2height-wrong-value", dict(rep, expected=want.tolist(), observed=np.asarray(got).tolist()))
        gi = A.pressure2height((p * 1024).astype(int), T)          # integer-typed pressures (whole Pa) give the same heights
        if not allclose(gi, want, rel=1e-11):
            col.violation("pressure2height-wrong-value-int-pressure", dict(rep, expected=want.tolist(), observed=np.asarray(gi).tolist()))
        if got[0] != 0 or np.any(np.diff(got) * np.diff(p) >= 0):        # strictly increasing with DECREASING pressure
            col.violation("pressure2height-not-increasing-from-zero", dict(rep, observed=np.asarray(got).tolist()))
    except Exception as ex:
        col.violation("pressure2height-raises-" + type(ex).__name__, dict(rep, observed=repr(ex)[:200]))
    # CRH: 1 for a saturated profile, linear in q, with a stand-in saturation pressure
    try:
        E = np.linspace(300.0, 50.0, len(p))
        with patched(A, e_eq_mixed_mk=lambda t: E.copy()):
            pp = p * 1024.0
            qs = A.water_vapor_pressure2specific_humidity(E, pp)
            one = A.column_relative_humidity(qs.copy(), pp, T * 16.0)
            quarter = A.column_relative_humidity(0.25 * qs, pp, T * 16.0)
        col.count(1)
        if not close(one, 1.0) or not close(quarter, 0.25):
            col.violation("crh-laws", dict(rep, expected=[1.0, 0.25], observed=[float(one), float(quarter)]))
    except Exception as ex:
        col.violation("crh-raises-" + type(ex).__name__, dict(rep, observed=repr(ex)[:200]))
    # ... for fields of any rank, integrated along any axis, with the 1-d pressure grid: every column is saturated with
    # respect to its OWN temperatures (the stand-in saturation pressure depends on T, T differs from column to column)
    n = len(p)
    pp = p * 1024.0
    sat = lambda t: 2.0 * np.asarray(t, dtype=float)
    for shape, axis in (((n, 2), 0), ((n, n), 0), ((n, n + 2), 0), ((3, n), 1), ((n, n), 1), ((2, n, 3), 1), ((n, 2, 3), 0),
                        ((2, 3, n), 2), ((n, n, n), 0), ((n, n, n), 2)):
        other = int(np.prod(shape)) // n
        cols = (T * 16.0)[:, None] * (1.0 + 0.125 * np.arange(other))[None, :]          # (levels, columns), exact in binary
        shp_moved = (n,) + tuple(d for i, d in enumerate(shape) if i != axis)
        Tf = np.ascontiguousarray(np.moveaxis(cols.reshape(shp_moved), 0, axis))
        pb = pp.reshape((n,) + (1,) * (len(shape) - 1))
        try:
            with patched(A, e_eq_mixed_mk=lambda t: sat(t).copy()):
                qs_moved = A.water_vapor_pressure2specific_humidity(sat(np.moveaxis(Tf, axis, 0)), pb)
                qs = np.ascontiguousarray(np.moveaxis(qs_moved, 0, axis))
                one = A.column_relative_humidity(qs.copy(), pp.copy(), Tf.copy(), axis=axis)
                quarter = A.column_relative_humidity(0.25 * qs, pp.copy(), Tf.copy(), axis=axis)
                # the same axis counted from the end
                neg = A.column_relative_humidity(qs.copy(), pp.copy(), Tf.copy(), axis=axis - len(shape))
            col.count(1)
            if np.shape(neg) != np.shape(one) or not np.array_equal(np.asarray(neg), np.asarray(one)):
                col.violation("crh-negative-axis-differs-rank%d-axis%d" % (len(shape), axis),
                              dict(rep, shape=list(shape), axis=axis - len(shape), expected=np.asarray(one).tolist(),
                                   observed=np.asarray(neg).tolist()))
            want_shape = tuple(d for i, d in enumerate(shape) if i != axis)
            if np.shape(one) != want_shape or not allclose(one, np.ones(want_shape), rel=1e-11) \
                    or not allclose(quarter, np.full(want_shape, 0.25), rel=1e-11):
                col.violation("crh-laws-rank%d-axis%d" % (len(shape), axis),
                              dict(rep, shape=list(shape), axis=axis, expected=[1.0, 0.25],
                                   observed=[np.asarray(one).tolist(), np.asarray(quarter).tolist()]))
        except Exception as ex:
            col.violation("crh-raises-%s-rank%d-axis%d" % (type(ex).__name__, len(shape), axis),
                          dict(rep, shape=list(shape), axis=axis, observed=repr(ex)[:200]))
    col.nontrivial.add(json.dumps(case["p"]))


def replay_isa(col, cases):
    """IsaProps: the tabulated standard atmosphere in height coordinates (exact), both addressings at the levels,
    and pressure2height without a temperature = pressure2height with the standard temperatures."""
    import typhon.physics.atmosphere as A
    zs = np.array([float(c["z"]) for c in cases])
    want = np.array([fl(c["t"]) for c in cases])
    rep = {"abstract": {"z": zs.tolist()}}
    try:
        got = np.array([float(A.standard_atmosphere(z)) for z in zs])
        got_arr = np.asarray(A.standard_atmosphere(zs.copy()), dtype=float)
        got_int = np.asarray(A.standard_atmosphere(zs.astype(int)), dtype=float)
        col.count(3 * len(zs))
        for label, g in (("scalar", got), ("array", got_arr), ("int-array", got_int)):
            if g.shape != want.shape or not np.all(np.abs(g - want) <= 1e-12 * want):
                bad = [i for i in range(len(zs))] if g.shape != want.shape else np.nonzero(np.abs(g - want) > 1e-12 * want)[0].tolist()
                beyond = all(zs[i] < -610 or zs[i] > 84852 for i in bad)
                col.violation("standard-atmosphere-wrong-%s-%s" % ("beyond-table" if beyond else "value", label),
                              dict(rep, expected=want.tolist(), observed=g.tolist(), at=[zs[i] for i in bad]))
    except Exception as ex:
        col.violation("standard-atmosphere-raises-" + type(ex).__name__, dict(rep, observed=repr(ex)[:200]))
    lev = sorted((c for c in cases if c["level"]), key=lambda c: c["level"])
    pl = np.array([fl(c["p"]) for c in lev])
    tl = np.array([fl(c["t"]) for c in lev])
    rep = {"abstract": {"p": pl.tolist(), "T": tl.tolist()}}
    try:
        gp = np.asarray(A.standard_atmosphere(pl.copy(), coordinates="pressure"), dtype=float)
        col.count(len(pl))
        if gp.shape != tl.shape or not np.all(np.abs(gp - tl) <= 1e-12 * tl):
            col.violation("standard-atmosphere-addressings-disagree-at-levels", dict(rep, expected=tl.tolist(), observed=gp.tolist()))
    except Exception as ex:
        col.violation("standard-atmosphere-raises-" + type(ex).__name__, dict(rep, observed=repr(ex)[:200]))
    for sel in ((0, 8), (0, 3), (1, 5), (4, 8), (6, 8), [0, 1, 7], [0, 4, 7], [0, 2, 7], [1, 2, 6], [1, 5, 6]):
        # (the index lists are different columns with the SAME number of levels and the same end points, one after the other)
        idx = list(range(*sel)) if isinstance(sel, tuple) else sel
        lo, hi = idx[0], idx[-1] + 1
        try:
            a = A.pressure2height(pl[idx].copy())
            b = A.pressure2height(pl[idx].copy(), tl[idx].copy())
            col.count(1)
            if not allclose(a, b, rel=1e-12):
                col.violation("pressure2height-default-is-not-the-standard-atmosphere",
                              dict(rep, levels=[lo + 1, hi], expected=np.asarray(b).tolist(), observed=np.asarray(a).tolist()))
        except Exception as ex:
            col.violation("pressure2height-raises-" + type(ex).__name__, dict(rep, observed=repr(ex)[:200]))
    col.nontrivial.add("isa")


def run(ctx):
    quick = ctx.tier == "quick"
    ctx.undecided = UNDECIDED
    ctx.rule = ("TLC model-checks linearity, additivity at grid points, sign reversal and default spacing of the trapezoid sum "
                "on integer data and emits arrays of rank 1-3 with the doubled integrals along each axis; AtmosCases gives "
                "IWV (both forms), layer heights and CRH laws as exact rationals for stand-in constants; the real functions "
                "are evaluated on the same exactly representable floats (typhon.constants patched, canary-guarded). "
                "CRH is replayed for fields of rank 1-3 along every axis. IsaProps transcribes the tabulated standard atmosphere "
                "(piecewise linear in height, linearly continued beyond the table): exact temperatures at 22 heights, both "
                "addressings at the 8 tabulated levels, and pressure2height(p) = pressure2height(p, T_ISA) on level columns. "
                "Non-trivial: irregular or decreasing grids, every atmospheric profile.")
    d = ctx.tlc_dir("num")
    with open(os.path.join(d, "MCTrapzL.cfg"), "w") as f:
        f.write('CONSTANTS Mode = "laws" NSample = 0\nINIT Init\nNEXT Next\nINVARIANT Laws\n')
    ctx.tlc(d, "TrapzProps", "MCTrapzL.cfg", workers=16, timeout=1500)
    with open(os.path.join(d, "MCTrapzC.cfg"), "w") as f:
        f.write('CONSTANTS Mode = "cases" NSample = %d\nINIT Init\nNEXT Next\nINVARIANT Emit\n' % (12 if quick else 150))
    res = ctx.tlc(d, "TrapzProps", "MCTrapzC.cfg", workers=1, seed=ctx.seed, timeout=1500)
    cases = list(res.tagged("CASE"))
    if len(cases) < 30:
        raise MachineryError("too few trapz cases")
    pmap(ctx, replay_trapz, cases)
    with open(os.path.join(d, "MCAtmos.cfg"), "w") as f:
        f.write('CONSTANTS Mode = "x" NSample = 0\nINIT AInit\nNEXT ANext\nINVARIANT NonNegative\nINVARIANT HeightMonotone\n'
                'INVARIANT CrhLaws\nINVARIANT AEmit\n')
    res = ctx.tlc(d, "AtmosCases", "MCAtmos.cfg", workers=1, timeout=600)
    acases = list(res.tagged("CASE"))
    if len(acases) != 8:
        raise MachineryError("expected 8 atmospheric profiles (4, each in both orders)")
    pmap(ctx, replay_atmos, acases, procs=1)
    res = ctx.tlc(d, "IsaProps", "IsaProps.cfg", workers=1, timeout=600)
    icases = list(res.tagged("CASE"))
    if len(icases) != 22 or sum(1 for c in icases if c["level"]) != 8:
        raise MachineryError("expected 22 ISA cases, 8 of them at tabulated levels")
    pmap(ctx, replay_isa, [icases], procs=1)
    ctx.traces += len(icases)
    if ctx.notes.get("standin_constants_not_effective"):
        ctx.notes["canary"] = "stand-in constants did not take effect: the IWV clauses were NOT exercised in this run"
    ctx.traces += len(cases) + len(acases)
    ctx.sample({k: cases[0][k] for k in ("x", "y1", "r1", "a2", "ra2")})
