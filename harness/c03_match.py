"""C03 (second half) -- FileSet.match against FindProps!MatchOK."""
import datetime as dt
import json
import os

import c01
from fsmodel import EMBEDDINGS, Tree
from vlib.par import pmap
from vlib.tlc import MachineryError, tla_value


def gen_cases(ctx, T, maxfiles, maxdur, nsample, seed):
    d = ctx.tlc_dir("fileset")
    with open(os.path.join(d, "MCMatch.cfg"), "w") as f:
        f.write("CONSTANTS T = %d MaxFiles = %d MaxDur = %d NSample = %d Intervals = {0, 1, 2}\n"
                "INIT Init\nNEXT Next\nINVARIANT Emit\n" % (T, maxfiles, maxdur, nsample))
    res = ctx.tlc(d, "MatchCases", "MCMatch.cfg", workers=1, seed=seed, timeout=900)
    cases = list(res.tagged("CASE"))
    if not cases:
        raise MachineryError("MatchCases produced no case")
    return cases


def interval_spelling(td, sp):
    """The same max_interval as a timedelta, as a number of seconds of several numeric types, and as a string - and with half
    a second more (files start and end on ticks of at least a minute: the same abstract interval)."""
    import datetime as dt
    import numpy as np
    secs = td.total_seconds()
    return [td, int(secs), float(secs), np.int64(secs), np.float64(secs), "%d s" % secs, np.int32(secs),
            float(secs) + 0.5, td + dt.timedelta(milliseconds=500)][sp % 9]


def do_match(fa, ta, fb, tb, emb, s, e, I, sp=0):
    from typhon.files.fileset import NoFilesError
    try:
        out = []
        for p, gs in fa.match(fb, emb.t(s), emb.t(e), max_interval=interval_spelling(I * emb.unit, sp) if I is not None else None):
            out.append([ta.ids([p])[0], tb.ids(gs)])
        return out
    except NoFilesError:
        return "nofiles"


def replay_pair(col, item):
    case, emb_name, layout_a, layout_b = item
    emb = EMBEDDINGS[emb_name]
    # the tag plays no role in MatchOK; concretely it makes the PATH order of the files differ from their time order
    # (names start with the tag: the earliest files get the tag that sorts last)
    def retag(files):
        files = sorted((tuple(f) for f in files), key=lambda f: (f[1], f[2]))
        return [f[:3] + (3 - (2 * i) // max(1, len(files)),) for i, f in enumerate(files)]
    ta = Tree(retag(case["F"]), emb, layout_a, "fullend")
    tb = Tree(retag(case["G"]), emb, layout_b, "fullend")
    times = {f[0]: (f[1], f[2]) for f in case["F"] + case["G"]}
    try:
        fa, fb = ta.fileset(), tb.fileset()
        for rown, (s, e, I, pairs, nP, nG) in enumerate(case["rows"]):
            sp = rown + len(case["F"]) + 3 * len(case["G"])
            if sp % 9 in (7, 8) and (I is None or any(f[1] == e + I for f in case["F"] + case["G"])):
                sp = 0      # half a second more moves the (exclusive) end of the widened period past a file starting exactly there
            exp = sorted((p, sorted(gs)) for p, gs in pairs)
            rep = {"abstract": {"F": case["F"], "G": case["G"], "s": s, "e": e, "I": I},
                   "concrete": {"embedding": emb_name, "layouts": [layout_a, layout_b], "max_interval_spelling": sp % 9}, "expected": exp}
            try:
                got = do_match(fa, ta, fb, tb, emb, s, e, I, sp)
            except Exception as ex:
                col.violation("match-raises-" + type(ex).__name__, dict(rep, observed=repr(ex)))
                continue
            col.count(1)
            if got == "nofiles":
                # NoFilesError is an accepted way to report that one side has no file in the period
                if nP and nG:
                    col.violation("match-nofiles-but-files", dict(rep, observed=got))
                continue
            if sorted((p, sorted(gs)) for p, gs in got) != exp:
                col.violation("match-wrong-pairing", dict(rep, observed=got))
            elif any(times[a[0]] > times[b[0]] for a, b in zip(got, got[1:])) or \
                    any(times[x] > times[y] for _, gs in got for x, y in zip(gs, gs[1:])):
                col.violation("match-order", dict(rep, observed=got))
            if exp and (len(exp) < nP or any(len(gs) < nG for _, gs in exp)):
                col.nontrivial.add((json.dumps(case["F"]), json.dumps(case["G"]), s, e, I))
    finally:
        ta.remove()
        tb.remove()


def record_session(rng, tid, emb_name, la, lb, T):
    emb = EMBEDDINGS[emb_name]
    def pop(n, base, maxdur):
        fs, seen = [], set()
        while len(fs) < n:
            t0 = rng.randrange(0, T)
            t1 = min(T - 1, t0 + rng.choice([0, 1, maxdur, rng.randint(0, maxdur)]))
            if (t0, t1) in seen:
                continue
            seen.add((t0, t1))
            fs.append((base + len(fs) + 1, t0, t1, 1))
        return fs
    F = pop(rng.randint(2, 8), 0, rng.choice([1, 3, T]))
    G = pop(rng.randint(2, 8), 100, rng.choice([1, 3, T]))
    ta, tb = Tree(F, emb, la, "fullend"), Tree(G, emb, lb, "fullend")
    calls = []
    try:
        fa, fb = ta.fileset(), tb.fileset()
        for _ in range(6):
            s = rng.randrange(0, T)
            e = rng.randrange(s + 1, T + 1)
            I = rng.choice([0, 1, 2, 5])
            base = {"op": "match", "s": s, "e": e, "I": I}
            try:
                got = do_match(fa, ta, fb, tb, emb, s, e, I)
                if got == "nofiles":
                    continue     # judged in direction A only
                calls.append(dict(base, ok=True, out=got))
            except Exception as ex:
                calls.append(dict(base, ok=False, out=[], err=repr(ex)[:200]))
    finally:
        ta.remove()
        tb.remove()
    return {"tid": tid, "F": [list(f) for f in F], "G": [list(f) for f in G], "calls": calls,
            "concrete": {"embedding": emb_name, "layouts": [la, lb]}}


def run(ctx):
    quick = ctx.tier == "quick"
    if quick:
        cases = gen_cases(ctx, 8, 2, 8, 120, ctx.seed)
    else:
        cases = gen_cases(ctx, 8, 2, 8, 1500, ctx.seed) + gen_cases(ctx, 8, 3, 8, 500, ctx.seed)
    combos = [("yearend6h", "flat", "flat"), ("yearend6h", "flat", "Y"), ("hour15m", "Y/M", "flat"), ("leapday6h", "Y", "Y/M")]
    items = [(c,) + combos[n % len(combos)] for n, c in enumerate(cases)]
    pmap(ctx, replay_pair, items)
    ctx.traces += len(items)
    ctx.sample({"match_case": {"F": cases[0]["F"], "G": cases[0]["G"], "rows": cases[0]["rows"][:3]}})
    n = 40 if quick else 400
    recs = [record_session(ctx.rng, tid, *combos[tid % len(combos)], 14) for tid in range(1, n + 1)]
    tdir = ctx.tmpdir()
    path = os.path.join(tdir, "match.ndjson")
    with open(path, "w") as f:
        for r in recs:
            f.write(json.dumps(r) + "\n")
    acc, rej = c01.validate_traces(ctx, path, n)
    ctx.traces += len(acc)
    ctx.count(sum(len(r["calls"]) for r in recs))
    for tid, k in sorted(rej.items()):
        r = recs[tid - 1]
        c = r["calls"][k - 1]
        ctx.violation("trace-match" + ("" if c["ok"] else "-raises"),
                      {"abstract": {"F": r["F"], "G": r["G"], "call": c}, "concrete": r["concrete"],
                       "tlc": {"module": "FindTrace", "first_unexplained_call": k}})
