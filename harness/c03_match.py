def run(ctx):
    pass
