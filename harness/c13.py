"""C13 -- expand / collapse / concat_collocations on hand-built compact datasets against CompactProps."""
import json
import math
import os

import numpy as np
import xarray as xr

from vlib.par import pmap
from vlib.tlc import MachineryError

NAN = -99


def val(x):
    return np.nan if x == NAN else float(x)


def build(c, tile=1, chan_order=None):
    """xarray compact collocation dataset in the layout Collocator.collocate produces; `tile` repeats the
    abstract dataset with index offsets (to exceed 1000 pairs)."""
    np_, ns = c["np"], c["ns"]
    pv = [val(x) for x in c["pv"]] * tile
    sv = [[val(x) for x in row] for row in c["sv"]] * tile
    pairs = []
    for k in range(tile):
        pairs += [[p - 1 + k * np_, s - 1 + k * ns] for p, s in c["pairs"]]
    pairs = np.array(pairs, dtype=int).T
    NP, NS, M = np_ * tile, ns * tile, pairs.shape[1]
    t0 = np.datetime64("2020-01-01T00:00:00", "ns")
    ds = xr.Dataset({
        "primary/time": ("primary/collocation", t0 + np.arange(NP) * np.timedelta64(1, "s")),
        "primary/lat": ("primary/collocation", np.linspace(-10, 10, NP)),
        "primary/lon": ("primary/collocation", np.linspace(0, 50, NP)),
        "primary/val": ("primary/collocation", np.array(pv)),
        "secondary/time": ("secondary/collocation", t0 + np.arange(NS) * np.timedelta64(2, "s")),
        "secondary/lat": ("secondary/collocation", np.linspace(-10, 10, NS)),
        "secondary/lon": ("secondary/collocation", np.linspace(0, 50, NS)),
        "secondary/bt": (("secondary/collocation", "secondary/channel"), np.array(sv).reshape(NS, -1)),
        # further variables whose names merely BEGIN like the coordinate fields time / lat / lon
        "secondary/longwave": (("secondary/collocation", "secondary/channel"), np.array(sv).reshape(NS, -1) * 2.0 + 1.0),
        # single-precision data with a large offset (2^23: one unit in the last place is 1.0)
        "secondary/bt32": (("secondary/collocation", "secondary/channel"), (np.array(sv).reshape(NS, -1) + 8388608.0).astype("float32")),
        "primary/latent": ("primary/collocation", np.array(pv) * 4.0 - 2.0),
        "primary/time_since": ("primary/collocation", np.array(pv) * 0.5),
        "Collocations/pairs": (("Collocations/group", "Collocations/collocation"), pairs),
        "Collocations/interval": ("Collocations/collocation", np.zeros(M, dtype="timedelta64[s]")),
        "Collocations/distance": ("Collocations/collocation", np.zeros(M)),
    }, coords={"Collocations/group": ["primary", "secondary"]})
    # a variable that contains +inf where bt has its largest value: infinity is a VALUE (it counts), not a gap
    bt = ds["secondary/bt"].values
    if np.any(np.isfinite(bt)):
        ds["secondary/spike"] = (("secondary/collocation", "secondary/channel"), np.where(bt == np.nanmax(bt), np.inf, bt))
    if chan_order is not None:
        # labelled channels, stored in the given order (the labels travel with their columns)
        nch = ds.sizes["secondary/channel"]
        labels = np.arange(1, nch + 1)
        ds = ds.assign_coords({"secondary/channel": labels})
        order = labels if chan_order == "ascending" else labels[::-1]
        ds = ds.sel({"secondary/channel": order})
    return ds


def regrouped(ds, pname, sname, back=False):
    """The same dataset with its two data groups called pname / sname instead of primary / secondary (or back)."""
    m = {}
    for name in list(ds.variables) + list(ds.dims):
        name = str(name)
        for old, new in (("secondary", sname), ("primary", pname)) if not back else ((sname, "secondary"), (pname, "primary")):
            if name.startswith(old + "/"):
                m[name] = new + name[len(old):]
                break
    out = ds.rename(m)
    return out.assign_coords({"Collocations/group": [pname, sname] if not back else ["primary", "secondary"]})


def same(a, b):
    a, b = np.asarray(a, dtype=float), np.asarray(b, dtype=float)
    return a.shape == b.shape and bool(np.all((a == b) | (np.isnan(a) & np.isnan(b))))


def near(a, b):
    a, b = np.asarray(a, dtype=float), np.asarray(b, dtype=float)
    return a.shape == b.shape and bool(np.all((np.abs(a - b) <= 1e-12 * np.maximum(1.0, np.abs(b))) | (np.isnan(a) & np.isnan(b))))


def check_expand(col, c, exp, ds, label, conf):
    from typhon.collocations import expand
    rep = {"abstract": {"compact": {k: c[k] for k in ("np", "ns", "pairs", "pv", "sv")}, "op": label}, "concrete": conf}
    try:
        e = expand(ds)
        if "secondary/channel" in e.coords:
            e = e.sortby("secondary/channel")
        pvals = e["primary/val"].values
        svals = e["secondary/bt"].transpose("collocation", "secondary/channel").values
        if "collocation" not in e["primary/val"].dims or "collocation" not in e["secondary/bt"].dims:
            raise AssertionError("not aligned on a common collocation dimension")
    except Exception as ex:
        col.violation(label + "-raises-" + type(ex).__name__, dict(rep, observed=repr(ex)[:300]))
        return
    col.count(1)
    t = conf.get("tile", 1)
    ep = [val(r[0]) for r in exp] * t
    es = [[val(x) for x in r[1]] for r in exp] * t
    if not same(pvals, ep) or not same(svals, es):
        col.violation(label + "-wrong-rows", dict(rep, expected=exp, observed={"primary": pvals.tolist()[:12],
                                                                               "secondary": svals.tolist()[:12]}))


def check_collapse(col, c, ds, conf):
    from typhon.collocations import collapse
    rep = {"abstract": {"compact": {k: c[k] for k in ("np", "ns", "pairs", "pv", "sv")}}, "concrete": conf}
    t = conf.get("tile", 1)
    for ref, key in (("primary", "colp"), (None, "colp"), ("secondary", "cols")):
        label = "collapse-" + (ref or "default")
        try:
            # a reducing custom collapser and one that hands back a VIEW of the bin matrix (first partner in pair order)
            # (the custom set also REPLACES the standard name "std", for this call only)
            kw = {"collapser": {"max": lambda m, a: np.nanmax(m, axis=a), "first": lambda m, a: m[0],
                                "std": lambda m, a: 2.0 * np.nanmax(m, axis=a)}} if ref == "primary" else {}
            with np.errstate(all="ignore"):
                r = collapse(ds, reference=ref, **kw)
        except Exception as ex:
            col.violation(label + "-raises-" + type(ex).__name__, dict(rep, observed=repr(ex)[:300]))
            continue
        col.count(1)
        rows = c[key] * t
        try:
            if key == "colp":
                refv = r["primary/val"].values
                mean = r["secondary/bt_mean"].values
                std = r["secondary/bt_std"].values
                num = r["secondary/bt_number"].values
                mx = r["secondary/bt_max"].values if ref == "primary" else None
                if ref != "primary" and any(v.endswith(("_max", "_first")) for v in r.variables):
                    raise AssertionError("collapser functions of an EARLIER call appear in a default call")
                # float32 data: the statistics are those of the values (offset 2^23), not single-precision roundings of them
                if "secondary/spike_number" in r.variables and not same(r["secondary/spike_number"].values, num):
                    raise AssertionError("an infinite partner value was not counted")
                m32 = r["secondary/bt32_mean"].values
                # (the mean may be rounded to single precision - half a unit at 2^23 -, the SPREAD of the values is a small
                #  number that any sound computation gets right to many digits, whatever the offset)
                d32 = np.asarray(m32, dtype=float) - 8388608.0
                s32 = np.asarray(r["secondary/bt32_std"].values, dtype=float)
                if d32.shape != mean.shape or not np.all((np.abs(d32 - mean) <= 0.5 + 1e-6) | (np.isnan(d32) & np.isnan(mean))) \
                        or not same(r["secondary/bt32_number"].values, num) \
                        or (ref != "primary" and not np.all((np.abs(s32 - std) <= 1e-3 * np.abs(std) + 1e-6) | (np.isnan(s32) & np.isnan(std)))):
                    raise AssertionError("float32 variable: mean/std/number disagree with the same data in float64")
                if ref == "primary":
                    # longwave = 2 * bt + 1 element-wise, so every statistic of it is determined by the one of bt
                    f1, f2 = r["secondary/bt_first"].values, r["secondary/longwave_first"].values
                    if not same(f2, 2.0 * f1 + 1.0) or not same(r["secondary/longwave_max"].values, 2.0 * mx + 1.0) \
                            or not same(r["secondary/longwave_number"].values, num):
                        raise AssertionError("second variable of the same shape disagrees with the first (first/max/number)")
                ok = same(refv, [val(x["ref"]) for x in rows]) and mean.shape == (len(rows), len(rows[0]["stat"]))
                if ok:
                    for i, row in enumerate(rows):
                        for ch, st in enumerate(row["stat"]):
                            n, s, sq = st["number"], st["sum"], st["sumsq"]
                            if num[i, ch] != n:
                                ok = False
                            elif n == 0:
                                ok = ok and math.isnan(mean[i, ch]) and math.isnan(std[i, ch])
                            elif ref == "primary":
                                # this call replaced "std" by twice the maximum
                                ok = ok and abs(mean[i, ch] * n - s) < 1e-9 and same([std[i, ch]], [2.0 * val(st["max"])])
                            else:
                                ok = ok and abs(mean[i, ch] * n - s) < 1e-9 and abs(std[i, ch] ** 2 * n * n - (n * sq - s * s)) < 1e-7
                            if mx is not None:
                                ok = ok and same([mx[i, ch]], [val(st["max"])])
            else:
                refv = r["secondary/bt"].values
                mean, std, num = r["primary/val_mean"].values, r["primary/val_std"].values, r["primary/val_number"].values
                # latent = 4 val - 2, time_since = val / 2 (exact in binary): their statistics follow from those of val
                if not same(r["primary/latent_number"].values, num) or not same(r["primary/time_since_number"].values, num) \
                        or not near(r["primary/latent_mean"].values, 4.0 * mean - 2.0) \
                        or not near(r["primary/time_since_mean"].values, 0.5 * mean):
                    raise AssertionError("variables named latent / time_since disagree with val (mean/number)")
                ok = same(refv, [[val(x) for x in row["ref"]] for row in rows]) and mean.shape == (len(rows),)
                if ok:
                    for i, row in enumerate(rows):
                        n, s, sq = row["stat"]["number"], row["stat"]["sum"], row["stat"]["sumsq"]
                        if num[i] != n:
                            ok = False
                        elif n == 0:
                            ok = ok and math.isnan(mean[i]) and math.isnan(std[i])
                        else:
                            ok = ok and abs(mean[i] * n - s) < 1e-9 and abs(std[i] ** 2 * n * n - (n * sq - s * s)) < 1e-7
        except Exception as ex:
            ok = False
            rep = dict(rep, projection_error=repr(ex)[:200])
        if not ok:
            col.violation(label + "-wrong-statistics", dict(rep, expected=rows[:6], observed=str(r)[:600]))


def replay_case(col, item):
    from typhon.collocations.collocator import concat_collocations
    case, n, tier = item
    a, b = case["a"], case["b"]
    def scattered(pairs, side):
        seen, last = set(), None
        for pr in pairs:
            r = pr[side]
            if r != last and r in seen:
                return True
            seen.add(r)
            last = r
        return False
    # >= 1000 pairs (the alternative row-assignment path): every 9th case, and every case in which the pairs of
    # some reference point are NOT adjacent in the pair list
    big = 1000 // len(a["pairs"]) + 7              # enough repetitions to exceed 1000 pairs whatever the base size
    tile = big if (n % 9 == 0 or ((scattered(a["pairs"], 0) or scattered(a["pairs"], 1)) and n % 2 == 0)) else 1
    conf = {"tile": tile}
    ds = build(a, tile)
    check_expand(col, a, a["expand"], ds, "expand", conf)
    check_collapse(col, a, build(a, tile), conf)
    # concat: expand(concat([a, b])) = expand(a) ++ expand(b);  also three datasets and a singleton list
    try:
        cc = concat_collocations([build(a), build(b)])
    except Exception as ex:
        col.violation("concat-raises-" + type(ex).__name__,
                      {"abstract": {"a": a["pairs"], "b": b["pairs"]}, "observed": repr(ex)[:300]})
        return
    ab = dict(a, np=a["np"] + b["np"], ns=a["ns"] + b["ns"], pairs="a++shift(b)", pv=a["pv"] + b["pv"], sv=a["sv"] + b["sv"])
    check_expand(col, ab, case["ab"], cc, "concat-expand", {"tile": 1, "list": "[a, b]"})
    try:
        c3 = concat_collocations([build(b), build(a), build(b)])
        check_expand(col, ab, b["expand"] + a["expand"] + b["expand"], c3, "concat-expand", {"tile": 1, "list": "[b, a, b]"})
        c1 = concat_collocations([build(a)])
        check_expand(col, a, a["expand"], c1, "concat-expand", {"tile": 1, "list": "[a]"})
        # labelled channels stored in opposite orders in the two datasets: data are combined by LABEL
        cl = concat_collocations([build(a, chan_order="ascending"), build(b, chan_order="descending")])
        check_expand(col, ab, case["ab"], cl, "concat-expand", {"tile": 1, "list": "[a, b]", "channel_labels": "ascending / descending"})
        # group names of which one is the beginning of the other (an instrument and the instrument on one platform)
        for pn, sn in (("MHS", "MHS_N18"), ("AMSU_B15", "AMSU")):
            cg = concat_collocations([regrouped(build(a), pn, sn), regrouped(build(b), pn, sn)])
            check_expand(col, ab, case["ab"], regrouped(cg, pn, sn, back=True), "concat-expand",
                         {"tile": 1, "list": "[a, b]", "group_names": [pn, sn]})
        # the inputs may be used again afterwards (no aliasing of the index arrays)
        da, db = build(a), build(b)
        concat_collocations([da, db])
        check_expand(col, b, b["expand"], db, "expand-after-concat", {"tile": 1, "list": "[a, b] then expand(b)"})
        pairs = cc["Collocations/pairs"].values
        if not (set(pairs[0].tolist()) == set(range(a["np"] + b["np"])) and set(pairs[1].tolist()) == set(range(a["ns"] + b["ns"]))):
            col.violation("concat-breaks-compact-invariant", {"abstract": {"a": a["pairs"], "b": b["pairs"]},
                                                              "observed": pairs.tolist()})
    except Exception as ex:
        col.violation("concat-raises-" + type(ex).__name__,
                      {"abstract": {"a": a["pairs"], "b": b["pairs"]}, "observed": repr(ex)[:300]})
    multi = len(a["pairs"]) > max(a["np"], a["ns"]) or any(NAN in row for row in a["sv"])
    if multi:
        col.nontrivial.add(json.dumps([a["pairs"], a["pv"], a["sv"]]))


def read_modes(col, case):
    """Collocations.read in its three modes is the stored compact dataset / Expand / Collapse of CompactProps."""
    import shutil
    import tempfile
    from typhon.collocations import Collocations
    a = case["a"]
    root = tempfile.mkdtemp(prefix="verif-c13-")
    try:
        path = os.path.join(root, "c.nc")
        Collocations(path, read_mode="compact").write(build(a), path)
        rep_conf = {"via": "Collocations.read"}
        comp = Collocations(path, read_mode="compact").read(path)
        comp["Collocations/pairs"] = comp["Collocations/pairs"].astype(int)       # the NetCDF reader widens ints (not judged)
        check_expand(col, a, a["expand"], comp, "read-compact-then-expand", rep_conf)
        exp = Collocations(path, read_mode="expand").read(path)
        pv = exp["primary/val"].values
        sv = exp["secondary/bt"].transpose("collocation", "secondary/channel").values
        col.count(1)
        if not same(pv, [val(r[0]) for r in a["expand"]]) or not same(sv, [[val(x) for x in r[1]] for r in a["expand"]]):
            col.violation("read-mode-expand-wrong-rows", {"abstract": {"pairs": a["pairs"]}, "observed": pv.tolist()})
        with np.errstate(all="ignore"):
            coll = Collocations(path).read(path)                                  # default mode: collapse onto the primary
        num = coll["secondary/bt_number"].values
        col.count(1)
        want = [[st["number"] for st in row["stat"]] for row in a["colp"]]
        if num.shape != np.array(want).shape or not np.array_equal(num, np.array(want)):
            col.violation("read-mode-collapse-wrong-number", {"abstract": {"pairs": a["pairs"]}, "expected": want, "observed": num.tolist()})
    except Exception as ex:
        col.violation("read-modes-raise-" + type(ex).__name__, {"abstract": {"pairs": a["pairs"]}, "observed": repr(ex)[:300]})
    finally:
        shutil.rmtree(root, ignore_errors=True)


def real_results(col, seed):
    """Structural clause on genuine collocate() output: valid indices, every stored point used, and
    expand() rows carry exactly the ids of the pair they stand for."""
    import random
    import collmodel as cm
    import ring
    from typhon.collocations import Collocator, expand
    rng = random.Random(seed)
    emb = ring.embeddings(8)[rng.choice(["equator", "meridian", "tilted"])]
    P = [(rng.randrange(0, 20), rng.choice([-1] + list(range(8)) * 3)) for _ in range(rng.choice([5, 40, 120]))]
    S = [(rng.randrange(0, 20), rng.choice([-1] + list(range(8)) * 3)) for _ in range(rng.choice([5, 40, 120]))]
    res = Collocator().collocate(cm.dataset(P, emb, rng.choice(["linear", "grid"])), cm.dataset(S, emb),
                                 max_interval=cm.interval_arg(rng.choice([1, 3]), 0), max_distance=cm.distance_arg(rng.choice([0, 1]), 8, 0))
    col.count(1)
    if res is None:
        return
    rep = {"abstract": {"P": P, "S": S}}
    if not cm.compact_check(res):
        col.violation("collocate-result-breaks-compact-invariant", dict(rep, observed=res["Collocations/pairs"].values.tolist()))
        return
    pairs = res["Collocations/pairs"].values
    try:
        e = expand(res)
    except Exception as ex:
        col.violation("expand-raises-" + type(ex).__name__ + "-real-result", dict(rep, observed=repr(ex)[:300]))
        return
    if e["primary/id"].values.tolist() != res["primary/id"].values[pairs[0]].tolist() or \
            e["secondary/id"].values.tolist() != res["secondary/id"].values[pairs[1]].tolist():
        col.violation("expand-wrong-rows-real-result", dict(rep, observed="expanded ids differ from ids of the pairs"))
    col.nontrivial.add(("real", seed))


def real_concat(col, seed):
    """concat_collocations on GENUINE collocate() results (whatever integer type the collocator stores its pairs in):
    three results with together more than 256 / 512 stored points per side; the concatenation must satisfy the structural
    clause and expand to the concatenation of the three expansions."""
    import random
    import collmodel as cm
    import ring
    from typhon.collocations import Collocator, expand
    from typhon.collocations.collocator import concat_collocations
    rng = random.Random(seed)
    emb = ring.embeddings(8)[rng.choice(["equator", "meridian", "tilted"])]
    parts = []
    for size in rng.choice([(120, 90, 100), (200, 130, 160), (60, 250, 40)]):
        P = [(rng.randrange(0, 20), rng.randrange(8)) for _ in range(size)]
        S = [(rng.randrange(0, 20), rng.randrange(8)) for _ in range(size)]
        res = Collocator().collocate(cm.dataset(P, emb), cm.dataset(S, emb), max_interval=cm.interval_arg(3, 0),
                                     max_distance=cm.distance_arg(1, 8, 0))
        if res is not None:
            parts.append(res)
    col.count(1)
    if len(parts) < 2:
        return
    rep = {"abstract": {"parts": [[int(r["primary/id"].size), int(r["secondary/id"].size), int(r["Collocations/pairs"].shape[1])] for r in parts]}}
    want_p, want_s = [], []
    for r in parts:
        pr = r["Collocations/pairs"].values
        want_p += r["primary/id"].values[pr[0]].tolist()
        want_s += r["secondary/id"].values[pr[1]].tolist()
    try:
        cc = concat_collocations(parts)
        if not cm.compact_check(cc):
            col.violation("concat-breaks-compact-invariant-real-results", dict(rep, observed=cc["Collocations/pairs"].values[:, :40].tolist()))
            return
        e = expand(cc)
        if e["primary/id"].values.tolist() != want_p or e["secondary/id"].values.tolist() != want_s:
            col.violation("concat-expand-wrong-rows-real-results", dict(rep, observed="expanded ids differ from the concatenated expansions"))
    except Exception as ex:
        col.violation("concat-raises-" + type(ex).__name__ + "-real-results", dict(rep, observed=repr(ex)[:300]))
        return
    if sum(int(r["primary/id"].size) for r in parts) > 256:
        col.nontrivial.add(("real-concat", seed))


def run(ctx):
    quick = ctx.tier == "quick"
    ctx.rule = ("TLC enumerates every compact dataset with <= MaxPairs distinct pairs over <= 3x3 stored points satisfying "
                "CompactInv (any order, one-to-many, many-to-one), 4 NaN patterns, 2 channels, and prints Expand, the "
                "collapse statistics (number, sum, sum of squares, max) for either reference and Expand(Concat); the real "
                "expand / collapse / concat_collocations are run on hand-built xarray datasets (every 9th tiled to >1000 "
                "pairs). Non-trivial: datasets with a multiplicity (more pairs than points on one side) or a NaN.")
    d = ctx.tlc_dir("colloc")
    with open(os.path.join(d, "MCCompact.cfg"), "w") as f:
        f.write("CONSTANTS MaxPairs = %d NSample = %d\nINIT Init\nNEXT Next\nINVARIANT ConcatInv\nINVARIANT ExpandInv\n"
                "INVARIANT Emit\n" % ((3, 150) if quick else (4, 0)))
    res = ctx.tlc(d, "CompactCases", "MCCompact.cfg", workers=1, seed=ctx.seed, timeout=1500)
    seen, cases = set(), []
    for c in res.tagged("CASE"):
        cases.append(c)
    if len(cases) < 50:
        raise MachineryError("too few compact cases")
    ctx.exhaustive = not quick
    if not quick:
        # one replay per distinct `a` is enough for expand/collapse; keep all (a, b) for concat on a third
        cases = cases[::3]
    pmap(ctx, replay_case, [(c, n, ctx.tier) for n, c in enumerate(cases)])
    pmap(ctx, read_modes, cases[::12] if quick else cases[::40], procs=1)       # NetCDF I/O: one process, one thread
    pmap(ctx, real_results, [ctx.seed * 1000 + i for i in range(24 if quick else 300)])
    pmap(ctx, real_concat, [ctx.seed * 1000 + i for i in range(9 if quick else 90)])
    ctx.traces += len(cases)
    ctx.sample({k: cases[0]["a"][k] for k in ("pairs", "pv", "sv", "expand", "colp")})
