"""C02 -- get_filename / parse_filename / get_info against NameProps, NameMatch (TLC is the oracle)."""
import datetime as dt
import json
import os

from vlib.par import pmap
from vlib.tlc import MachineryError

WIDTH = {"year": 4, "year2": 2, "month": 2, "day": 2, "doy": 3, "hour": 2, "minute": 2, "second": 2, "millisecond": 3}
TF = ["hour", "minute", "second", "millisecond"]
DATE = {"ymd": ["year", "month", "day"], "y2md": ["year2", "month", "day"], "ydoy": ["year", "doy"], "y2doy": ["year2", "doy"]}


def pad(name, v):
    return ("%0" + str(WIDTH[name.replace("end_", "")]) + "d") % v


def to_dt(t, extra_us=0):
    return dt.datetime(t[0], t[1], t[2], t[3], t[4], t[5], t[6] * 1000 + extra_us)


def build_template(tpl, variant):
    """The same abstract template spelled in several concrete ways (separators, directories, a user
    placeholder, a repeated placeholder, literal dots)."""
    date = DATE[tpl["date"]]
    tfs = TF[:tpl["nt"]]
    def grp(prefix, names, sep):
        return sep.join("{%s%s}" % (prefix, n) for n in names)
    if variant == 0:
        start = grp("", date + tfs, "")
    elif variant == 1:
        start = "/".join("{%s}" % n for n in date) + "/" + ("x" + grp("", tfs, "") if tfs else "x")
    elif variant == 2:
        start = "{%s}/{sat}/{sat}.v1.0_" % date[0] + grp("", date + tfs, ".")
    elif variant == 4:
        # cumulative directory levels: every date field is repeated, and an earlier field repeats before the next one first
        # appears ({year}/{year}{month}/{year}{month}{day}/...); several of these fields share one regex (two digits)
        start = "/".join(grp("", date[:i + 1], "") for i in range(len(date))) + "/x" + grp("", date + tfs, "")
    else:
        start = "{sat}_" + grp("", date, "-") + ("T" + grp("", tfs, ":") if tfs else "")
    if tpl["ek"] == "full":
        end = "-" + grp("end_", DATE[tpl.get("edate", tpl["date"])] + tfs, "" if variant in (0, 1, 4) else ".")
    elif tpl["ek"] == "partial":
        end = "-" + grp("end_", [f for f in TF if f in tpl["ep"]], "" if variant in (0, 1, 4) else ".")
    else:
        end = ""
    return start + end + ".dat", variant in (2, 3)


def replay_case(col, item):
    from typhon.files import FileSet
    from typhon.files.handlers.common import FileHandler, FileInfo
    case, variant = item
    tpl = case["tpl"]
    template, has_sat = build_template(tpl, variant)
    base = "/data/x"
    fill = {"sat": "NOAA18"} if has_sat else None
    fs_by_cov = {}
    def fileset(cov):
        if cov not in fs_by_cov:
            tc = {"none": None, "hour": "1 hour", "day": dt.timedelta(days=1)}[cov]
            if (len(template) + variant) % 3 == 0:
                # an existing fileset object that is given this template LATER (fs.path = ...): every later answer is that
                # of the new template alone
                f = FileSet(os.path.join(base, "{year2}{month}{day}{hour}.dat"), time_coverage=tc)
                f.get_info(f.get_filename(dt.datetime(2010, 11, 12, 13)))
                f.path = os.path.join(base, template)
                fs_by_cov[cov] = f
            else:
                fs_by_cov[cov] = FileSet(os.path.join(base, template), time_coverage=tc)
        return fs_by_cov[cov]
    start_exp = to_dt(case["start"])
    s = to_dt(case["s"], extra_us=case["s"][6] % 2 * 600)      # sub-millisecond part must be truncated, not rounded
    nontrivial = False
    for e_abs, fields, end_abs in case["rows"]:
        e = to_dt(e_abs)
        abstract = {"tpl": tpl, "s": case["s"], "e": e_abs}
        conc = {"template": template, "fill": fill}
        fs = fileset("none")
        exp_name = os.path.join(base, template).format(**{k: pad(k, v) for k, v in fields.items()}, **(fill or {}))
        try:
            name = fs.get_filename((s, e), fill=fill)
        except Exception as ex:
            col.violation("get_filename-raises-" + type(ex).__name__, {"abstract": abstract, "concrete": conc, "observed": repr(ex)})
            continue
        col.count(1)
        if name != exp_name:
            bad = [k for k, v in fields.items() if "{%s}" % k in template]
            col.violation("get_filename-wrong-" + tpl["date"], {"abstract": abstract, "concrete": conc,
                                                                "expected": exp_name, "observed": name})
            continue
        # parse_filename recovers every placeholder string
        try:
            parsed = fs.parse_filename(name)
        except Exception as ex:
            col.violation("parse-raises-" + type(ex).__name__, {"abstract": abstract, "concrete": conc, "observed": repr(ex)})
            continue
        exp_parsed = {k: pad(k, v) for k, v in fields.items()}
        if has_sat:
            exp_parsed["sat"] = "NOAA18"
        col.count(1)
        if parsed != exp_parsed:
            col.violation("parse-wrong-fields", {"abstract": abstract, "concrete": conc, "expected": exp_parsed,
                                                  "observed": parsed})
        # get_info: start, end, attributes
        # (with end fields in the name the end is the one the name gives, whatever time_coverage says)
        for cov in (("none", "hour", "day") if tpl["ek"] == "none" else ("none", "hour")):
            fsc = fileset(cov)
            exp_end = to_dt(case["cov"][cov]) if tpl["ek"] == "none" else to_dt(end_abs)
            try:
                info = fsc.get_info(name)
                got = (info.times[0], info.times[1], dict(info.attr))
            except Exception as ex:
                col.violation("get_info-raises-" + type(ex).__name__, {"abstract": abstract, "concrete": conc,
                                                                      "observed": repr(ex)})
                continue
            col.count(1)
            exp = (start_exp, exp_end, {"sat": "NOAA18"} if has_sat else {})
            if got != exp:
                kind = "start" if got[0] != exp[0] else "end-" + tpl["ek"] if got[1] != exp[1] else "attr"
                col.violation("get_info-wrong-" + kind, {"abstract": abstract, "concrete": dict(conc, cov=cov),
                                                         "expected": [str(x) for x in exp], "observed": [str(x) for x in got]})
        # ... and on ONE object whose time_coverage is re-assigned between the calls (hour -> None -> day): the
        # information about the same name has to follow the coverage in force
        if tpl["ek"] == "none":
            try:
                fseq = FileSet(os.path.join(base, template), time_coverage="1 hour")
                seq = []
                for cov, tc in (("hour", None), ("none", None), ("day", None)):
                    if cov != "hour":
                        fseq.time_coverage = {"none": None, "day": dt.timedelta(days=1)}[cov]
                    seq.append((cov, fseq.get_info(name).times[1], to_dt(case["cov"][cov])))
                col.count(1)
                bad = [(c, str(g), str(w)) for c, g, w in seq if g != w]
                if bad:
                    col.violation("get_info-stale-after-time_coverage-assignment",
                                  {"abstract": abstract, "concrete": dict(conc, sequence="1 hour, None, 1 day on one object"),
                                   "expected": [str(w) for _, _, w in seq], "observed": [str(g) for _, g, _ in seq]})
            except Exception as ex:
                col.violation("get_info-raises-" + type(ex).__name__ + "-after-time_coverage-assignment",
                              {"abstract": abstract, "concrete": conc, "observed": repr(ex)})
        if "doy" in fields and fields["doy"] > 59 or "year2" in fields or (tpl["ek"] == "partial" and end_abs[:3] != case["start"][:3]):
            nontrivial = True
    # info_via='both': the handler's information overrides the file name's, None does not
    e_abs, fields, end_abs = case["rows"][0]
    name = os.path.join(base, template).format(**{k: pad(k, v) for k, v in fields.items()}, **(fill or {}))
    hstart = to_dt(case["cov"]["day"])
    class H(FileHandler):
        def get_info(self, file_info, **kw):
            return FileInfo(file_info.path, [hstart, None], {"sat": "Z", "orbit": 7})
    try:
        fsb = FileSet(os.path.join(base, template), handler=H(), info_via="both", decompress=False)
        info = fsb.get_info(name)
        exp_end = hstart if tpl["ek"] == "none" else to_dt(end_abs)
        exp = (hstart, exp_end, {"sat": "Z", "orbit": 7})
        got = (info.times[0], info.times[1], dict(info.attr))
        col.count(1)
        if got != exp:
            col.violation("get_info-both-merge", {"abstract": {"tpl": tpl, "s": case["s"]}, "concrete": {"template": template},
                                                   "expected": [str(x) for x in exp], "observed": [str(x) for x in got]})
    except Exception as ex:
        col.violation("get_info-both-raises-" + type(ex).__name__, {"abstract": {"tpl": tpl, "s": case["s"]},
                                                                    "concrete": {"template": template}, "observed": repr(ex)})
    if nontrivial:
        col.nontrivial.add((json.dumps(tpl), json.dumps(case["s"])))


def replay_match(col, case):
    from typhon.files import FileSet
    toks, pieces = case["tokens"], case["pieces"]
    tmpl = ""
    ph = {}
    for t in toks:
        if t["k"] == "lit":
            tmpl += t["text"]
        elif t["k"] == "wild":
            tmpl += "*"
        else:
            tmpl += "{" + t["name"] + "}"
            if t["k"] == "upper":
                ph[t["name"]] = "[A-Z]+"
            elif t["k"] == "list":
                ph[t["name"]] = sorted(t["vals"])
    name = "".join(p["text"] for p in pieces)
    fs = FileSet(tmpl, placeholder=ph or None)
    full_t, full_n = fs.path, os.path.join(os.path.dirname(fs.path.split("{")[0]), "") 
    # the FileSet makes the template absolute; prefix the name with the same base directory
    prefix = fs.path[:len(fs.path) - len(tmpl)]
    rep = {"abstract": {"tokens": [(t["k"], t["name"] or t["text"]) for t in toks], "pieces": [p["text"] for p in pieces],
                        "corrupted_piece": case["i"]},
           "concrete": {"template": tmpl, "name": name, "placeholder": ph}}
    try:
        got = fs.parse_filename(prefix + name)
    except ValueError:
        got = "ValueError"
    except Exception as ex:
        got = "raised " + type(ex).__name__
    col.count(1)
    exp = case["parsed"] if case["matches"] else "ValueError"
    if got != exp:
        fp = "mismatch-accepted" if exp == "ValueError" and isinstance(got, dict) else \
             "match-rejected" if got == "ValueError" else "parse-wrong-fields"
        col.violation(fp, dict(rep, expected=exp, observed=got))
    if ph:
        # the same placeholders given AFTER the object has already parsed a name (set_placeholders on a used FileSet):
        # the custom regex / value list must be in force from then on
        try:
            fs2 = FileSet(tmpl)
            try:
                fs2.parse_filename(prefix + name)
            except Exception:
                pass
            fs2.set_placeholders(**ph)
            try:
                got2 = fs2.parse_filename(prefix + name)
            except ValueError:
                got2 = "ValueError"
        except Exception as ex:
            got2 = "raised " + type(ex).__name__
        col.count(1)
        if got2 != exp:
            fp = "mismatch-accepted" if exp == "ValueError" and isinstance(got2, dict) else \
                 "match-rejected" if got2 == "ValueError" else "parse-wrong-fields"
            col.violation(fp + "-placeholders-set-after-first-parse", dict(rep, expected=exp, observed=got2))
    if case["i"] != 0:
        col.nontrivial.add(("match", tmpl, name))


def error_cases(col, _):
    """Unknown / unfilled placeholders raise the dedicated errors (discrete outcomes named by the property)."""
    from typhon.files import FileSet
    from typhon.files.fileset import UnknownPlaceholderError, UnfilledPlaceholderError
    fs = FileSet("/d/{sat}/{year}{month}{day}.nc")
    t = dt.datetime(2020, 2, 29)
    for label, fn, exc in (
            ("unfilled", lambda: fs.get_filename(t), UnfilledPlaceholderError),
            ("unknown-template", lambda: fs.get_filename(t, template="/d/{nope}/{year}.nc", fill={"sat": "A"}), UnknownPlaceholderError),
            ("unknown-parse", lambda: fs.parse_filename("/d/A/20200229.nc", template="/d/{nope}/{year}{month}{day}.nc"), UnknownPlaceholderError)):
        try:
            r = fn()
            got = "returned %r" % (r,)
        except exc:
            got = "ok"
        except Exception as ex:
            got = "raised " + type(ex).__name__
        col.count(1)
        if got != "ok":
            col.violation("dedicated-error-" + label, {"abstract": {"case": label}, "expected": exc.__name__, "observed": got})


def run(ctx):
    quick = ctx.tier == "quick"
    ctx.rule = ("TLC enumerates templates (4 date spellings x 0-4 time fields x end none/full/partial subsets) x a boundary "
                "catalogue of starts (leap days of 2000/2100/2020, doy 366, year2 seam 1965/2064, 1000/9999, 23:59:59.999) x "
                "11 end candidates; NameProps gives every placeholder's number, the start and the end get_info must report; "
                "each case is replayed through get_filename / parse_filename / get_info under 4 concrete spellings. "
                "NameMatch enumerates single-piece corruptions of valid names. Non-trivial: cases with a calendar carry "
                "(doy beyond February, year2, end roll-over into the next day) and every corrupted name.")
    d = ctx.tlc_dir("fileset")
    with open(os.path.join(d, "MCName.cfg"), "w") as f:
        f.write("CONSTANT Stride = %d\nINIT Init\nNEXT Next\nINVARIANT CalendarInv\nINVARIANT RoundTripInv\n"
                "INVARIANT PartialInv\nINVARIANT SuccInv\nINVARIANT Emit\n" % (4 if quick else 1))
    res = ctx.tlc(d, "NameCases", "MCName.cfg", workers=1, timeout=900)
    cases = list(res.tagged("CASE"))
    if len(cases) < 100:
        raise MachineryError("too few name cases: %d" % len(cases))
    ctx.exhaustive = not quick
    items = [(c, n % 5) for n, c in enumerate(cases)] if quick else [(c, v) for c in cases for v in range(5)]
    pmap(ctx, replay_case, items)
    ctx.traces += len(items)
    ctx.sample({"tpl": cases[7]["tpl"], "s": cases[7]["s"], "rows": cases[7]["rows"][:2]})
    res = ctx.tlc(d, "NameMatch", "NameMatch.cfg", workers=1, timeout=300)
    mcases = list(res.tagged("CASE"))
    if len(mcases) < 50:
        raise MachineryError("too few match cases")
    pmap(ctx, replay_match, mcases, procs=1)
    pmap(ctx, error_cases, [0], procs=1)
    ctx.traces += len(mcases)
    ctx.sample({"pieces": [p["text"] for p in mcases[20]["pieces"]], "matches": mcases[20]["matches"]})
