"""Ring geometry: abstract positions 0..N-1 on a great circle, embedded as lat/lon."""
import math

import numpy as np

R_KM = 6378.1     # typhon.constants.earth_radius / 1000 (used only to compare REPORTED distance values)


def _circle(N, u, v):
    pts = []
    for i in range(N):
        a = 2 * math.pi * i / N
        x = [math.cos(a) * u[j] + math.sin(a) * v[j] for j in range(3)]
        lat = math.degrees(math.asin(max(-1.0, min(1.0, x[2]))))
        lon = math.degrees(math.atan2(x[1], x[0]))
        pts.append((lat, lon))
    return pts


def _unit(lat, lon):
    la, lo = math.radians(lat), math.radians(lon)
    return (math.cos(la) * math.cos(lo), math.cos(la) * math.sin(lo), math.sin(la))


def embeddings(N):
    eq = [(0.0, 180.0 - 360.0 * i / N) for i in range(N)]                    # crosses +-180 at position 0
    mer = _circle(N, _unit(0, 30), (0.0, 0.0, 1.0))                           # through both poles
    tilt = _circle(N, _unit(20, -170), _unit(55, 115))                        # tilted, crosses the date line
    # orthonormalise the tilted pair
    u = np.array(_unit(20, -170))
    w = np.array(_unit(55, 115))
    w = w - u * float(u @ w)
    w = w / np.linalg.norm(w)
    tilt = _circle(N, tuple(u), tuple(w))
    return {"equator": eq, "meridian": mer, "tilted": tilt}


def chord_km(n, N):
    return 2 * R_KM * math.sin(math.pi * n / N)


def arc_km(n, N):
    return R_KM * 2 * math.pi * n / N


def threshold_km(k, N, metric):
    d = chord_km if metric == "minkowski" else arc_km
    if k >= N // 2:
        # chord: anything beyond the diameter; arc: exactly half the circumference (the largest radius the property
        # names; a larger one wraps in the tree's reduced haversine distance)
        return d(N // 2, N) * (1.01 if metric == "minkowski" else 1.0)
    return (d(k, N) + d(k + 1, N)) / 2       # mid-gap: hundreds of km from either class


def classify(dist_km, N, metric, rel=1e-6):
    d = chord_km if metric == "minkowski" else arc_km
    for n in range(N // 2 + 1):
        ref = d(n, N)
        if abs(dist_km - ref) <= rel * max(ref, 1.0) + 1e-6:
            return n
    return -1


def latlon(emb, positions):
    lat = np.array([emb[p][0] for p in positions], dtype=float)
    lon = np.array([emb[p][1] for p in positions], dtype=float)
    return lat, lon
