"""C17 (partial) -- optimal-estimation matrices against OemProps (exact rationals, n, m <= 3)."""
import json
import os

import numpy as np

from numlib import allclose, fl
from vlib.par import pmap
from vlib.tlc import MachineryError

UNDECIDED = ["shapes beyond 3 x 3 (state dimension up to 30, measurement dimension up to 40)",
             "ill-conditioned covariances / conditioning-dependent tolerances",
             "the limits A -> I for vanishing measurement noise and A -> 0 for vanishing prior variance"]


def mat(rows):
    return np.array([[fl(x) for x in r] for r in rows])


def replay(col, case):
    from typhon.retrieval.oem import (averaging_kernel_matrix, error_covariance_matrix, retrieval_gain_matrix)
    from typhon.retrieval.oem.error import retrieval_noise, smoothing_error
    K = np.array(case["K"], dtype=float)
    Sa = np.array(case["Sa"], dtype=float)
    Sy = np.array(case["Sy"], dtype=float)
    m, n = K.shape
    rep = {"abstract": {"K": case["K"], "S_a": case["Sa"], "S_y": case["Sy"]}}
    S, G, A = mat(case["S"]), mat(case["G"]), mat(case["A"])
    for label, fn, want in (("error_covariance_matrix", lambda: error_covariance_matrix(K, Sa, Sy), S),
                            ("retrieval_gain_matrix", lambda: retrieval_gain_matrix(K, Sa, Sy), G),
                            ("averaging_kernel_matrix", lambda: averaging_kernel_matrix(K, Sa, Sy), A),
                            ("smoothing_error", lambda: smoothing_error(np.arange(1.0, n + 1) + 5.0, np.full(n, 5.0), A),
                             np.array([fl(x) for x in case["smooth"]])),
                            ("retrieval_noise", lambda: retrieval_noise(K, Sa, Sy, np.array([1.0 if i % 2 == 0 else -1.0 for i in range(m)])),
                             np.array([fl(x) for x in case["noise"]]))):
        try:
            got = np.asarray(fn(), dtype=float)
        except Exception as ex:
            col.violation(label + "-raises-" + type(ex).__name__, dict(rep, observed=repr(ex)[:200]))
            continue
        col.count(1)
        if not allclose(got, want, 1e-9):
            col.violation(label + "-wrong-value", dict(rep, expected=want.tolist(), observed=got.tolist()))
    # smoothing_error twice with the SAME state vector object: the caller's x is not touched
    try:
        xs, xa = np.arange(1.0, n + 1) + 5.0, np.full(n, 5.0)
        keep = xs.copy()
        first = np.asarray(smoothing_error(xs, xa, A), dtype=float)
        second = np.asarray(smoothing_error(xs, xa, A), dtype=float)
        col.count(1)
        want_s = np.array([fl(x) for x in case["smooth"]])
        if not np.array_equal(xs, keep) or not allclose(first, want_s, 1e-9) or not allclose(second, want_s, 1e-9):
            col.violation("smoothing_error-overwrites-x-or-differs-on-second-call", dict(rep, expected=want_s.tolist(),
                                                                                         observed=[first.tolist(), second.tolist(), xs.tolist()]))
    except Exception as ex:
        col.violation("smoothing_error-raises-" + type(ex).__name__, dict(rep, observed=repr(ex)[:200]))
    # a single-precision (or integer-typed) Jacobian with double-precision covariances: the arithmetic stays in double precision
    for dtype in ("float32", "int64"):
        Kt = K.astype(dtype)
        for label, fn, want in (("error_covariance_matrix", lambda: error_covariance_matrix(Kt, Sa, Sy), S),
                                ("retrieval_gain_matrix", lambda: retrieval_gain_matrix(Kt, Sa, Sy), G),
                                ("averaging_kernel_matrix", lambda: averaging_kernel_matrix(Kt, Sa, Sy), A)):
            try:
                got = np.asarray(fn(), dtype=float)
            except Exception as ex:
                col.violation(label + "-raises-" + type(ex).__name__ + "-" + dtype + "-jacobian", dict(rep, observed=repr(ex)[:200]))
                continue
            col.count(1)
            if not allclose(got, want, 1e-9):
                col.violation(label + "-wrong-value-" + dtype + "-jacobian", dict(rep, expected=want.tolist(), observed=got.tolist()))
    # integer-typed covariance matrices (whole-number variances are stored that way often enough)
    if np.all(Sa == np.round(Sa)) and np.all(Sy == np.round(Sy)):
        Sai, Syi = Sa.astype(int), Sy.astype(int)
        for label, fn, want in (("error_covariance_matrix", lambda: error_covariance_matrix(K, Sai, Syi), S),
                                ("retrieval_gain_matrix", lambda: retrieval_gain_matrix(K, Sai, Syi), G),
                                ("averaging_kernel_matrix", lambda: averaging_kernel_matrix(K, Sai, Syi), A)):
            try:
                got = np.asarray(fn(), dtype=float)
            except Exception as ex:
                col.violation(label + "-raises-" + type(ex).__name__ + "-int-covariances", dict(rep, observed=repr(ex)[:200]))
                continue
            col.count(1)
            col.bump("int_covariance_calls")
            if not allclose(got, want, 1e-9):
                col.violation(label + "-wrong-value-int-covariances", dict(rep, expected=want.tolist(), observed=got.tolist()))
    # both covariances at a tiny absolute scale (2^-40, exact in binary): S scales, G and A do not (ScaleLaw)
    c = 2.0 ** -40
    for label, fn, want in (("error_covariance_matrix", lambda: error_covariance_matrix(K, Sa * c, Sy * c), S * c),
                            ("retrieval_gain_matrix", lambda: retrieval_gain_matrix(K, Sa * c, Sy * c), G),
                            ("averaging_kernel_matrix", lambda: averaging_kernel_matrix(K, Sa * c, Sy * c), A)):
        try:
            got = np.asarray(fn(), dtype=float)
        except Exception as ex:
            col.violation(label + "-raises-" + type(ex).__name__ + "-small-scale", dict(rep, observed=repr(ex)[:200]))
            continue
        col.count(1)
        if got.shape != want.shape or not np.all(np.abs(got - want) <= 1e-8 * np.maximum(np.abs(want).max(), 1e-300)):
            col.violation(label + "-wrong-value-small-scale", dict(rep, scale="2^-40", expected=want.tolist(), observed=got.tolist()))
    if m != n or np.linalg.matrix_rank(K) < min(m, n):
        col.nontrivial.add(json.dumps([case["K"], case["Sa"], case["Sy"]]))


def replay_sequence(col, group):
    """Several cases of one shape pushed through the SAME array objects (values overwritten in place between the calls):
    every call must answer for the values the arrays hold NOW (a result remembered for these objects would be stale)."""
    from typhon.retrieval.oem import (averaging_kernel_matrix, error_covariance_matrix, retrieval_gain_matrix)
    from typhon.retrieval.oem.error import retrieval_noise
    first = group[0]
    K = np.array(first["K"], dtype=float)
    Sa = np.array(first["Sa"], dtype=float)
    Sy = np.array(first["Sy"], dtype=float)
    m, n = K.shape
    e_y = np.array([1.0 if i % 2 == 0 else -1.0 for i in range(m)])
    for step, case in enumerate(group):
        K[...] = np.array(case["K"], dtype=float)
        Sa[...] = np.array(case["Sa"], dtype=float)
        Sy[...] = np.array(case["Sy"], dtype=float)
        rep = {"abstract": {"K": case["K"], "S_a": case["Sa"], "S_y": case["Sy"], "step_on_the_same_array_objects": step + 1,
                            "earlier_values": [{"K": g["K"], "S_a": g["Sa"], "S_y": g["Sy"]} for g in group[:step]][-2:]}}
        for label, fn, want in (("retrieval_noise", lambda: retrieval_noise(K, Sa, Sy, e_y), np.array([fl(x) for x in case["noise"]])),
                                ("retrieval_gain_matrix", lambda: retrieval_gain_matrix(K, Sa, Sy), mat(case["G"])),
                                ("error_covariance_matrix", lambda: error_covariance_matrix(K, Sa, Sy), mat(case["S"])),
                                ("averaging_kernel_matrix", lambda: averaging_kernel_matrix(K, Sa, Sy), mat(case["A"]))):
            try:
                got = np.asarray(fn(), dtype=float)
            except Exception as ex:
                col.violation(label + "-raises-" + type(ex).__name__ + "-on-reused-arrays", dict(rep, observed=repr(ex)[:200]))
                continue
            col.count(1)
            if not allclose(got, want, 1e-9):
                col.violation(label + "-stale-or-wrong-on-reused-arrays", dict(rep, expected=want.tolist(), observed=got.tolist()))
        if not (np.array_equal(K, np.array(case["K"], dtype=float)) and np.array_equal(Sa, np.array(case["Sa"], dtype=float))
                and np.array_equal(Sy, np.array(case["Sy"], dtype=float))):
            col.violation("oem-overwrites-input", rep)
            return


def block(mats):
    r = sum(a.shape[0] for a in mats)
    c = sum(a.shape[1] for a in mats)
    out = np.zeros((r, c))
    i = j = 0
    for a in mats:
        out[i:i + a.shape[0], j:j + a.shape[1]] = a
        i += a.shape[0]
        j += a.shape[1]
    return out


def replay_blocks(col, group):
    """OemProps!BlockLaw: printed cases side by side as ONE block-diagonal problem (m up to 40, n up to 30), and a HISTORY of
    such problems in one process that keep the first and the last block and change only the blocks in between: every call
    answers for the matrices it was given (the block-diagonal of the cases' own printed S, G, A)."""
    from typhon.retrieval.oem import (averaging_kernel_matrix, error_covariance_matrix, retrieval_gain_matrix)
    first, last, middles = group["first"], group["last"], group["middles"]
    for step, mid in enumerate(middles):
        cs = [first] + mid + [last]
        K = block([np.array(c["K"], dtype=float) for c in cs])
        Sa = block([np.array(c["Sa"], dtype=float) for c in cs])
        Sy = block([np.array(c["Sy"], dtype=float) for c in cs])
        rep = {"abstract": {"blocks": [{"K": c["K"], "S_a": c["Sa"], "S_y": c["Sy"]} for c in cs][:6], "n_blocks": len(cs),
                            "shape_of_K": list(K.shape), "step_of_history": step + 1,
                            "history": "same first and last block, other blocks in between"}}
        for label, fn, key in (("retrieval_gain_matrix", lambda: retrieval_gain_matrix(K, Sa, Sy), "G"),
                               ("error_covariance_matrix", lambda: error_covariance_matrix(K, Sa, Sy), "S"),
                               ("averaging_kernel_matrix", lambda: averaging_kernel_matrix(K, Sa, Sy), "A")):
            want = block([mat(c[key]) for c in cs])
            try:
                got = np.asarray(fn(), dtype=float)
            except Exception as ex:
                col.violation(label + "-raises-" + type(ex).__name__ + "-on-block-problem", dict(rep, observed=repr(ex)[:200]))
                continue
            col.count(1)
            if got.shape != want.shape or not allclose(got, want, 1e-9):
                bad = np.argwhere(~np.isclose(got, want, rtol=1e-9, atol=1e-12))[:3].tolist() if got.shape == want.shape else "shape"
                col.violation(label + "-wrong-on-block-problem" + ("-later-in-history" if step else ""),
                              dict(rep, first_wrong_cells=bad))
    col.nontrivial.add("blocks-%d" % len(middles))


def limit_family(col, _):
    """K = (1 0), Sa = I, Sy = (c): closed forms model-checked for rational c (OemProps!LimitFamily), evaluated here for
    very small noise, where a truncating pseudo-inverse would drop the unobserved direction."""
    from typhon.retrieval.oem import (averaging_kernel_matrix, error_covariance_matrix, retrieval_gain_matrix)
    K = np.array([[1.0, 0.0]])
    Sa = np.eye(2)
    for c in (1.0, 1e-6, 1e-12, 1e-14):
        d = 1.0 + c
        want = {"S": np.array([[c / d, 0.0], [0.0, 1.0]]), "G": np.array([[1.0 / d], [0.0]]), "A": np.array([[1.0 / d, 0.0], [0.0, 0.0]])}
        got = {"S": error_covariance_matrix(K, Sa, np.array([[c]])), "G": retrieval_gain_matrix(K, Sa, np.array([[c]])),
               "A": averaging_kernel_matrix(K, Sa, np.array([[c]]))}
        col.count(3)
        for key in want:
            if not np.all(np.abs(np.asarray(got[key]) - want[key]) <= 1e-9 * max(1.0, c) + 1e-9 * np.abs(want[key])):
                col.violation("limit-family-wrong-" + key, {"abstract": {"K": [[1, 0]], "S_a": "I", "S_y": c},
                                                            "expected": want[key].tolist(), "observed": np.asarray(got[key]).tolist()})
    # the over-determined family of OemProps!LimitFamilyOver: K = (1 1)^T, Sa = (1), Sy = c I
    K2 = np.array([[1.0], [1.0]])
    for c in (1.0, 1e-6, 1e-9, 1e-12, 1e-14):
        d = 2.0 + c
        want = {"S": np.array([[c / d]]), "G": np.array([[1.0 / d, 1.0 / d]]), "A": np.array([[2.0 / d]])}
        Sy2 = np.eye(2) * c
        got = {"S": error_covariance_matrix(K2, np.eye(1), Sy2), "G": retrieval_gain_matrix(K2, np.eye(1), Sy2),
               "A": averaging_kernel_matrix(K2, np.eye(1), Sy2)}
        col.count(3)
        for key in want:
            if not np.all(np.abs(np.asarray(got[key]) - want[key]) <= 1e-9 * np.abs(want[key])):
                col.violation("limit-family-over-determined-wrong-" + key, {"abstract": {"K": [[1], [1]], "S_a": "I", "S_y": "%g I" % c},
                                                                            "expected": want[key].tolist(), "observed": np.asarray(got[key]).tolist()})
    col.nontrivial.add("limit-family")


def run(ctx):
    quick = ctx.tier == "quick"
    ctx.undecided = UNDECIDED
    ctx.rule = ("TLC enumerates integer Jacobians K (entries -1..2, incl. zero and rank-deficient ones) and SPD covariances "
                "from a catalogue (identity, widely different scales, correlated) for all nine shapes n, m in 1..3 and "
                "model-checks in exact rational arithmetic: n-form gain = m-form gain, A = G K = I - S Sa^-1, S symmetric "
                "positive definite, Sa - S positive semidefinite, spectrum of A in [0, 1); the printed S, G, A, A(x - xa), "
                "G e_y are compared (1e-9) with the five real functions; sequences of cases are also pushed through the SAME array "
                "objects, overwritten in place between the calls. Non-trivial: non-square or rank-deficient K.")
    d = ctx.tlc_dir("num")
    cases = []
    for n in (1, 2, 3):
        for m in (1, 2, 3):
            sample = 0 if n * m <= 2 else (12 if quick else (0 if n * m <= 4 else 150))
            with open(os.path.join(d, "MCOem.cfg"), "w") as f:
                f.write("CONSTANTS N = %d M = %d NSample = %d\nINIT Init\nNEXT Next\nINVARIANT Identities\nINVARIANT Spectrum\n"
                        "INVARIANT ScaleLaw\nINVARIANT BlockLaw\nINVARIANT LimitFamily\nINVARIANT LimitFamilyOver\nINVARIANT Emit\n" % (n, m, sample))
            res = ctx.tlc(d, "OemProps", "MCOem.cfg", workers=8, seed=ctx.seed, timeout=2400)
            got = list(res.tagged("CASE"))
            if len(got) != res.distinct:          # PrintT lines of parallel workers must not have been torn
                raise MachineryError("CASE lines (%d) != states (%d) for n=%d m=%d" % (len(got), res.distinct, n, m))
            cases += got
    if len(cases) < 100:
        raise MachineryError("too few OEM cases")
    pmap(ctx, replay, cases)
    groups = {}
    for c in cases:
        groups.setdefault((len(c["K"]), len(c["K"][0])), []).append(c)
    seqs = [g[i:i + 4] for g in groups.values() for i in range(0, len(g), 4)]
    pmap(ctx, replay_sequence, seqs)
    pmap(ctx, limit_family, [0], procs=1)
    # block-diagonal compositions: 3 x 3 blocks, 10..12 of them between a fixed first and last block (m = 36..42 > 32)
    b33 = groups.get((3, 3), [])
    if len(b33) < 8:
        raise MachineryError("too few 3x3 cases for the block histories")
    bgroups = []
    for g in range(6 if quick else 60):
        rng = ctx.rng
        nb = rng.choice([10, 11, 8])          # + 2 outer blocks: n = m = 36, 39 or 30
        bgroups.append({"first": rng.choice(b33), "last": rng.choice(b33),
                        "middles": [[rng.choice(b33) for _ in range(nb)] for _ in range(4)]})
    pmap(ctx, replay_blocks, bgroups)
    ctx.traces += len(cases)
    c = next(c for c in cases if len(c["K"]) == 2 and len(c["K"][0]) == 3)
    ctx.sample({k: c[k] for k in ("K", "Sa", "Sy", "S", "A")})
