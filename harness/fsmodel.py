"""Concretisation of the abstract tick-line file populations of FindProps on real directory trees."""
import datetime as dt
import os
import shutil
import tempfile

MINT, MAXT = -5000, 5000
TAGNAME = {1: "A", 2: "B", 3: "C"}
TAGID = {v: k for k, v in TAGNAME.items()}


class Embedding:
    def __init__(self, name, base, unit, levels):
        self.name, self.base, self.unit = name, base, unit
        self.levels = levels          # directory levels whose boundaries fall on ticks

    def t(self, k):
        if k <= MINT or k >= MAXT:
            return None
        return self.base + k * self.unit

    def half(self, h):
        return self.base + h * (self.unit / 2)

    def boundaries(self, level, lo, hi):
        """Block-start ticks of a calendar level inside [lo, hi] (ticks), computed with datetime."""
        out = set()
        first, last = self.base + lo * self.unit, self.base + hi * self.unit
        if level == "hour":
            cur = first.replace(minute=0, second=0, microsecond=0)
            step = dt.timedelta(hours=1)
            while cur <= last:
                out.add(cur)
                cur += step
        elif level == "day":
            cur = first.replace(hour=0, minute=0, second=0, microsecond=0)
            while cur <= last:
                out.add(cur)
                cur += dt.timedelta(days=1)
        elif level == "month":
            cur = first.replace(day=1, hour=0, minute=0, second=0, microsecond=0)
            while cur <= last:
                out.add(cur)
                cur = (cur + dt.timedelta(days=32)).replace(day=1)
        elif level == "year":
            cur = first.replace(month=1, day=1, hour=0, minute=0, second=0, microsecond=0)
            while cur <= last:
                out.add(cur)
                cur = cur.replace(year=cur.year + 1)
        ticks = set()
        for b in out:
            q, r = divmod(b - self.base, self.unit)
            if r == dt.timedelta(0):
                ticks.add(q)
            else:
                # boundary between ticks: the block containing tick q+1.. starts "at" q+1 on the tick line
                ticks.add(q + 1)
        return ticks

    def span(self, level):
        d = {"year": dt.timedelta(days=366), "month": dt.timedelta(days=31), "day": dt.timedelta(days=1),
             "hour": dt.timedelta(hours=1)}[level]
        q, r = divmod(d, self.unit)
        assert r == dt.timedelta(0), (level, self.name)
        return q


H6 = dt.timedelta(hours=6)
EMBEDDINGS = {
    "yearend6h": Embedding("yearend6h", dt.datetime(2019, 12, 30), H6, ("year", "month", "day")),
    "leapday6h": Embedding("leapday6h", dt.datetime(2020, 2, 28), H6, ("year", "month", "day")),
    "monthend6h": Embedding("monthend6h", dt.datetime(2021, 4, 29), H6, ("year", "month", "day")),
    "y2seam6h": Embedding("y2seam6h", dt.datetime(1999, 12, 30), H6, ("year", "month", "day")),
    "hour15m": Embedding("hour15m", dt.datetime(2019, 12, 31, 22), dt.timedelta(minutes=15),
                         ("year", "month", "day", "hour")),
}

# layout name -> (levels for the model, directory template chunks)
LAYOUTS = {
    "flat": ([], []),
    "Y": (["year"], ["{year}"]),
    "Y/M": (["year", "month"], ["{year}", "{month}"]),
    "Y/M/D": (["year", "month", "day"], ["{year}", "{month}", "{day}"]),
    "Y/doy": (["year", "day"], ["{year}", "{doy}"]),
    "Y2/M/D": (["year", "month", "day"], ["{year2}", "{month}", "{day}"]),
    "YM/D": (["month", "day"], ["{year}-{month}", "{day}"]),
    "Y/M/D/H": (["year", "month", "day", "hour"], ["{year}", "{month}", "{day}", "{hour}"]),
    "tag/Y/M/D": (["tag", "year", "month", "day"], ["{tag}", "{year}", "{month}", "{day}"]),
    "Y/tag/M/D": (["year", "tag", "month", "day"], ["{year}", "{tag}", "{month}", "{day}"]),
    "fix/Y/M/D": (["year", "month", "day"], ["data", "{year}", "{month}", "{day}"]),
    # non-temporal sub-directories BELOW temporal ones
    "Y/M/D/tag": (["year", "month", "day", "tag"], ["{year}", "{month}", "{day}", "{tag}"]),
    "Y/M/tag/D": (["year", "month", "tag", "day"], ["{year}", "{month}", "{tag}", "{day}"]),
    "Y/doy/tag": (["year", "day", "tag"], ["{year}", "{doy}", "{tag}"]),
}

START = "{year}{month}{day}{hour}{minute}{second}"
END = "{end_year}{end_month}{end_day}{end_hour}{end_minute}{end_second}"


def finest(levels):
    rank = {"year": 1, "month": 2, "day": 3, "hour": 4}
    t = [l for l in levels if l in rank]
    return max(t, key=rank.get) if t else None


def template(layout, style):
    levels, chunks = LAYOUTS[layout]
    tag_in_dir = "tag" in levels
    notag = style.endswith("-notag")
    style = style.replace("-notag", "")
    assert not (notag and tag_in_dir)
    # a second user placeholder {ver} (same value for every file) gives filters with several black lists something to act on
    name = ("" if notag else "{ver}_" if tag_in_dir else "{tag}_{ver}_") + START
    if style == "fullend":
        name += "-" + END
    elif style == "partialend":
        name += "-{end_hour}{end_minute}{end_second}"      # the end takes its date from the start, +1 day if it would precede it
    name += ".dat"
    return "/".join(chunks + [name])


class Tree:
    """A population of abstract files materialised as empty files under a temp dir."""

    def __init__(self, files, emb, layout, style, root=None):
        # files: list of (id, t0, t1, tag)
        from typhon.files import FileSet
        self.emb, self.layout, self.style = emb, layout, style
        self.root = root or tempfile.mkdtemp(prefix="verif-fs-")
        self.tmpl = template(layout, style)
        self.files = files
        self.cov = None
        if style.startswith("uniform"):
            durs = {f[2] - f[1] for f in files}
            assert len(durs) == 1
            self.cov = durs.pop() * emb.unit
        probe = FileSet(os.path.join(self.root, self.tmpl))
        self.path_of = {}
        self.id_of = {}
        for fid, t0, t1, tag in files:
            p = probe.get_filename((emb.t(t0), emb.t(t1)), fill={"tag": TAGNAME[tag], "ver": "v1"})
            os.makedirs(os.path.dirname(p), exist_ok=True)
            with open(p, "wb") as fh:
                fh.write(b"%d" % fid)
            self.path_of[fid] = p
            self.id_of[p] = fid

    def fileset(self, **kw):
        from typhon.files import FileSet
        if self.cov is not None:
            kw.setdefault("time_coverage", self.cov)
        return FileSet(os.path.join(self.root, self.tmpl), **kw)

    def zipped(self, **kw):
        """The same tree inside a zip archive, opened through fsspec: -> (FileSet, ids(infos), path_of(id))"""
        import zipfile
        from fsspec.implementations.zip import ZipFileSystem
        from typhon.files import FileSet
        self.zip_path = self.root.rstrip("/") + ".zip"
        with zipfile.ZipFile(self.zip_path, "w") as z:
            for d, _, fs_ in os.walk(self.root):
                for f in fs_:
                    p = os.path.join(d, f)
                    z.write(p, os.path.relpath(p, self.root))
        if self.cov is not None:
            kw.setdefault("time_coverage", self.cov)
        fs = FileSet(self.tmpl, fs=ZipFileSystem(self.zip_path), **kw)
        rel = {os.path.relpath(p, self.root): i for p, i in self.id_of.items()}
        ids = lambda infos: [rel.get(getattr(x, "path", x).lstrip("/"), -1) for x in infos]
        path_of = lambda i: os.path.relpath(self.path_of[i], self.root)
        return fs, ids, path_of

    def ids(self, infos):
        out = []
        for x in infos:
            p = getattr(x, "path", x)
            out.append(self.id_of.get(os.path.abspath(p), -1))
        return out

    def remove(self):
        shutil.rmtree(self.root, ignore_errors=True)
        if getattr(self, "zip_path", None) and os.path.exists(self.zip_path):
            os.remove(self.zip_path)


def filters_of(white, black):
    if not white and not black:
        return None
    f = {}
    if white:
        names = [TAGNAME[t] for t in sorted(white)]
        f["tag"] = names[0] if len(names) == 1 else names
    if black:
        names = [TAGNAME[t] for t in sorted(black)]
        # an additional black list that rejects nothing, listed FIRST: the effective one must still be honoured
        f["!ver"] = "v9"
        f["!tag"] = names[0] if len(names) == 1 else names
    return f
