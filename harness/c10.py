"""C10 -- FileSet.map / imap / collect / icollect / align under forced completion orders (schedules from
PoolDesign.tla) and recorded event logs validated against PoolProps by TLC."""
import json
import os
import random
import warnings

import fsmodel
from fsmodel import EMBEDDINGS, Tree
from gated import EventLog, Gate, make_gated_pool
from vlib.par import pmap
from vlib.tlc import MachineryError


class TaskError(Exception):
    def __init__(self, fid):
        super().__init__("task %d failed" % fid)
        self.fid = fid


class TaskTypeError(TaskError, TypeError):
    """the same failure, but of a built-in kind that calling conventions use as well: a reader that fails with a TypeError
    has still been called - once"""


def make_handler(fail_ids, reads):
    from typhon.files.handlers.common import FileHandler

    def reader(file_info, **kw):
        with open(file_info.path, "rb") as f:
            fid = int(f.read())
        reads.append(fid)
        if fid in fail_ids:
            raise (TaskTypeError if fid % 2 == 0 else TaskError)(fid)
        return fid
    return FileHandler(reader=reader)


def build(n, style="fullend"):
    files = [(i, i - 1, i - 1, 1) for i in range(1, n + 1)]          # file i starts at tick i-1: find() order = 1..n
    return Tree(files, EMBEDDINGS["yearend6h"], "Y/M/D", style)


def run_call(api, n, W, fail, e2w, order, flavour, use_files, rng=None, implicit_workers=False):
    """Executes one map/imap/collect/icollect call under the gate; returns the event log and notes."""
    import typhon.files.fileset as FM
    tree = build(n)
    log = EventLog()
    gate = Gate(order=order, rng=rng)
    Pool = make_gated_pool(log, gate)
    saved = FM.ThreadPoolExecutor
    notes = {}
    reads = []
    try:
        FM.ThreadPoolExecutor = Pool
        reader_fails = set(fail) if flavour == "reader" else set()
        fs = tree.fileset(handler=make_handler(reader_fails, reads))
        ids = lambda info: tree.ids([info])[0]
        def func(*a):
            # on_content: (content, info) ; else (info,)
            info = a[-1]
            fid = ids(info)
            if flavour == "func" and fid in fail:
                raise TaskError(fid)
            return ("r", fid)
        sel = {"files": list(fs.find())} if use_files else {}
        common = dict(max_workers=W, worker_type="thread", return_info=True, **sel)
        if implicit_workers and api in ("map", "imap"):
            # the pool size is NOT given with the call: it is the fileset's max_threads, because threads are asked for -
            # whatever the fileset's own default worker type and its max_processes are
            fs.worker_type, fs.max_threads, fs.max_processes = "process", W, W + 3
            del common["max_workers"]
        if flavour == "reader":
            common.update(on_content=True, pass_info=True, error_to_warning=e2w)
        results = None
        with warnings.catch_warnings():
            warnings.simplefilter("ignore")
            try:
                if api == "imap":
                    for info, val in fs.imap(func, **common):
                        fid = ids(info)
                        log.add("consume", fid)
                        if (val is None) != (fid in fail and e2w and flavour == "reader") or (val is not None and val != ("r", fid)):
                            notes["wrong_value"] = [fid, repr(val)]
                elif api == "map":
                    results = fs.map(func, **common)
                    for info, val in results:
                        fid = ids(info)
                        log.add("consume", fid)
                        if (val is None) != (fid in fail and e2w and flavour == "reader") or (val is not None and val != ("r", fid)):
                            notes["wrong_value"] = [fid, repr(val)]
                elif api == "icollect":
                    for info, val in fs.icollect(max_workers=W, return_info=True, error_to_warning=e2w, **sel):
                        fid = ids(info)
                        log.add("consume", fid)
                        if (val is None) != (fid in fail and e2w) or (val is not None and val != fid):
                            notes["wrong_value"] = [fid, repr(val)]
                elif api == "collect":
                    infos, data = fs.collect(max_workers=W, return_info=True, error_to_warning=e2w, **sel)
                    notes["collect"] = [[ids(i) for i in infos], list(data)]
                    for i in range(1, n + 1):
                        log.add("consume", i)            # collect returns at once; order is judged on the lists below
            except TaskError as ex:
                log.add("raise", ex.fid)
        notes["stuck"] = gate.stuck
        notes["pool_used"] = Pool.state["pools"] > 0
        notes["reads"] = sorted(reads)
    finally:
        gate.close()
        FM.ThreadPoolExecutor = saved
        tree.remove()
    return log.ev, notes


def replay_case(col, item):
    case, api, variant = item
    n, W, fail, e2w, order = case["n"], case["w"], case["fail"], case["e2w"], case["order"]
    flavour = "reader" if (e2w or api in ("collect", "icollect") or variant % 2) else "func"
    conf = {"api": api, "flavour": flavour, "files_arg": bool(variant % 3 == 0)}
    rep = {"abstract": {"n": n, "W": W, "fail": fail, "e2w": e2w, "completion_order": order, "lazy": case["lazy"]},
           "concrete": conf}
    try:
        conf["pool_size_from_fileset_defaults"] = bool(variant % 4 == 0 and api in ("map", "imap"))
        ev, notes = run_call(api, n, W, fail, e2w, order, flavour, conf["files_arg"],
                             implicit_workers=conf["pool_size_from_fileset_defaults"])
    except Exception as ex:
        col.violation("%s-raises-%s" % (api, type(ex).__name__) + ("-all-failed" if e2w and len(fail) == n else ""),
                      dict(rep, observed=repr(ex)[:300]))
        return None
    col.count(1)
    if not notes["pool_used"]:
        col.bump("pool_not_instrumented")
    if notes["stuck"]:
        col.bump("schedules_not_followed")
    rec = {"tid": 0, "n": n, "W": W, "fail": fail, "e2w": e2w, "lazy": api in ("imap", "icollect"), "ev": ev,
           "concrete": conf, "abstract": rep["abstract"]}
    if "wrong_value" in notes:
        col.violation(api + "-wrong-result-value", dict(rep, observed=notes["wrong_value"]))
    if api == "collect" and "collect" in notes:
        exp = [i for i in range(1, n + 1) if i not in fail]
        if notes["collect"][0] != exp or notes["collect"][1] != exp:
            col.violation("collect-wrong-order-or-content", dict(rep, expected=exp, observed=notes["collect"]))
    if flavour == "reader":
        exp_reads = sorted(range(1, n + 1)) if not any(e[0] == "raise" for e in ev) else None
        if exp_reads is not None and notes["reads"] != exp_reads:
            col.violation(api + "-file-read-not-exactly-once", dict(rep, expected=exp_reads, observed=notes["reads"]))
    if order != sorted(order) or fail:
        col.nontrivial.add((api, n, W, json.dumps(fail), e2w, json.dumps(order)))
    return rec


def bundles(col, seed):
    """files= given as bundles (lists of files): one task and one result per bundle, in bundle order; a bundle read on
    content is the list of its files' contents in order."""
    import typhon.files.fileset as FM
    rng = random.Random(seed)
    n = rng.randint(3, 7)
    tree = build(n)
    log = EventLog()
    gate = Gate(rng=rng)
    Pool = make_gated_pool(log, gate)
    saved = FM.ThreadPoolExecutor
    try:
        FM.ThreadPoolExecutor = Pool
        reads = []
        fs = tree.fileset(handler=make_handler(set(), reads))
        infos = list(fs.find())
        size = rng.choice([2, 3])
        bl = [infos[i:i + size] for i in range(0, n, size)]
        exp = [[tree.ids([x])[0] for x in b] for b in bl]
        W = rng.choice([1, 2, 3])
        rep = {"abstract": {"n": n, "bundles": exp, "W": W}}
        # (a) function on the FileInfo bundle
        got = fs.map(lambda b: [tree.ids([x])[0] for x in b], files=bl, max_workers=W, worker_type="thread")
        col.count(1)
        if got != exp:
            col.violation("map-bundles-wrong-order-or-content", dict(rep, observed=got))
        got = [v for _, v in fs.imap(lambda b: [tree.ids([x])[0] for x in b], files=bl, max_workers=W, worker_type="thread", return_info=True)]
        col.count(1)
        if got != exp:
            col.violation("imap-bundles-wrong-order-or-content", dict(rep, observed=got))
        # (b) on content: every file of every bundle read exactly once, contents in order
        del reads[:]
        got = fs.map(lambda content: list(content), files=bl, on_content=True, max_workers=W, worker_type="thread")
        col.count(1)
        if got != exp or sorted(reads) != list(range(1, n + 1)):
            col.violation("map-bundles-on-content-wrong", dict(rep, observed={"result": got, "reads": sorted(reads)}))
        # (c) the same via find(bundle=...)
        got = fs.map(lambda b: [tree.ids([x])[0] for x in b], bundle=size, max_workers=W, worker_type="thread")
        col.count(1)
        if got != exp:
            col.violation("map-find-bundle-wrong", dict(rep, observed=got))
        # (d) a function returning None is a result like any other
        got = fs.map(lambda info: None, max_workers=W, worker_type="thread")
        if got != [None] * n:
            col.violation("map-none-results-lost", dict(rep, observed=got))
        # (f) a read error inside ONE bundle under error_to_warning: that bundle's result is None, the others are complete
        bad = rng.randrange(1, n + 1)
        fsf = tree.fileset(handler=make_handler({bad}, []))
        blf = [list(fsf.find())[i:i + size] for i in range(0, n, size)]
        with warnings.catch_warnings():
            warnings.simplefilter("ignore")
            got = fsf.map(lambda content: list(content), files=blf, on_content=True, error_to_warning=True, max_workers=W, worker_type="thread")
        col.count(1)
        want = [None if bad in e else e for e in exp]
        if got != want:
            col.violation("map-bundle-with-read-error-wrong", dict(rep, failing_file=bad, expected=want, observed=got))
        # (e) extra positional / keyword arguments: every task gets exactly them (given as a list and as a tuple), and
        #     the caller's containers are left alone
        def with_args(a, b, info, k=None):              # typhon appends the FileInfo AFTER the user's positional arguments
            return (tree.ids([info])[0], a, b, k)
        for label, extra in (("list", [10, 20]), ("tuple", (10, 20))):
            kwargs = {"k": 5}
            keep = list(extra)
            got = fs.map(with_args, args=extra, kwargs=kwargs, max_workers=W, worker_type="thread")
            got2 = [v for _, v in fs.imap(with_args, args=extra, kwargs=kwargs, max_workers=W, worker_type="thread", return_info=True)]
            col.count(2)
            want = [(i, 10, 20, 5) for i in range(1, n + 1)]
            if got != want or got2 != want or list(extra) != keep or kwargs != {"k": 5}:
                col.violation("map-extra-arguments-wrong-" + label, dict(rep, expected=want[:3], observed={"map": got[:4], "imap": got2[:4],
                                                                                                         "args_after": list(extra)}))
        col.nontrivial.add(("bundles", seed))
    except Exception as ex:
        col.violation("bundles-raise-" + type(ex).__name__, {"abstract": {"n": n}, "observed": repr(ex)[:300]})
    finally:
        gate.close()
        FM.ThreadPoolExecutor = saved
        tree.remove()


def compressed_fileset(col, fmt):
    """A fileset whose files carry a compression suffix, processed twice through the SAME object: contents in file order,
    the FileInfo handed back names the stored file (not a temporary copy), and the second pass equals the first."""
    import datetime as dt
    import tempfile
    from typhon.files import FileSet
    from typhon.files.handlers.common import FileHandler
    root = tempfile.mkdtemp(prefix="verif-c10-")
    try:
        def reader(file_info):
            with open(file_info.path) as f:
                return f.read()
        def writer(data, file_info):
            with open(file_info.path, "w") as f:
                f.write(data)
        fs = FileSet(os.path.join(root, "{year}{month}{day}.txt." + fmt), handler=FileHandler(reader=reader, writer=writer),
                     max_threads=2)
        days = [dt.datetime(2020, 2, 27) + dt.timedelta(days=i) for i in range(5)]
        for d in days:
            fs[d] = "content of %s" % d.strftime("%Y%m%d")
        want_paths = [os.path.join(root, d.strftime("%Y%m%d") + ".txt." + fmt) for d in days]
        want = ["content of %s" % d.strftime("%Y%m%d") for d in days]
        rep = {"abstract": {"files": 5, "compression": fmt}}
        for rnd in (1, 2):
            for api in ("map", "imap", "collect", "icollect"):
                try:
                    if api == "map":
                        res = fs.map(lambda content: content, on_content=True, return_info=True, worker_type="thread", max_workers=2)
                    elif api == "imap":
                        res = list(fs.imap(lambda content: content, on_content=True, return_info=True, worker_type="thread", max_workers=2))
                    elif api == "collect":
                        infos, data = fs.collect(return_info=True, max_workers=2)
                        res = list(zip(infos, data))
                    else:
                        res = list(fs.icollect(return_info=True, max_workers=2))
                except Exception as ex:
                    col.violation("compressed-%s-raises-%s-pass%d" % (api, type(ex).__name__, rnd), dict(rep, observed=repr(ex)[:200]))
                    continue
                col.count(1)
                paths = [i.path for i, _ in res]
                if [v for _, v in res] != want or paths != want_paths or not all(os.path.exists(p) for p in paths):
                    col.violation("compressed-%s-wrong-info-or-content-pass%d" % (api, rnd),
                                  dict(rep, expected=[os.path.basename(p) for p in want_paths],
                                       observed={"paths": [os.path.basename(p) for p in paths], "values": [v for _, v in res][:3]}))
        if sorted(os.listdir(root)) != sorted(os.path.basename(p) for p in want_paths):
            col.violation("compressed-fileset-debris", dict(rep, observed=sorted(os.listdir(root))))
        col.nontrivial.add(("compressed", fmt))
    finally:
        import shutil
        shutil.rmtree(root, ignore_errors=True)


def empty_selection(col, _):
    """files=[] is a selection of nothing: no task may run, nothing may be returned."""
    tree = build(3)
    try:
        reads = []
        fs = tree.fileset(handler=make_handler(set(), reads))
        calls = []
        f = lambda info: calls.append(1) or 1
        for label, fn in (("map", lambda: fs.map(f, files=[], worker_type="thread")),
                          ("imap", lambda: list(fs.imap(f, files=[], worker_type="thread"))),
                          ("collect", lambda: fs.collect(files=[])),
                          ("icollect", lambda: list(fs.icollect(files=[]))),
                          ("map-tuple", lambda: fs.map(f, files=(), worker_type="thread"))):
            try:
                got = fn()
            except Exception as ex:
                col.violation(label + "-raises-" + type(ex).__name__ + "-empty-files", {"abstract": {"files": []}, "observed": repr(ex)[:200]})
                continue
            col.count(1)
            if list(got) != [] or calls or reads:
                col.violation(label.split("-")[0] + "-processes-files-for-empty-selection",
                              {"abstract": {"files": [], "n_files_in_fileset": 3}, "observed": {"returned": len(list(got)), "calls": len(calls), "reads": reads}})
                calls.clear()
                reads.clear()
        col.nontrivial.add("empty-selection")
    finally:
        tree.remove()


def align_case(col, seed):
    """align(): every matched secondary handed to each primary that needs it, read once, in match order."""
    import typhon.files.fileset as FM
    rng = random.Random(seed)
    emb = EMBEDDINGS["yearend6h"]
    T = 10
    def pop(k, base, maxdur):
        out, seen = [], set()
        while len(out) < k:
            t0 = rng.randrange(0, T)
            t1 = min(T - 1, t0 + rng.randint(0, maxdur))
            if t0 in seen:
                continue
            seen.add(t0)
            out.append((base + len(out) + 1, t0, t1, 1))
        return out
    P = pop(rng.randint(1, 4), 0, rng.choice([2, 2, 6]))
    S = pop(rng.randint(1, 5), 100, rng.choice([3, 1, 0]))
    if seed % 5 == 0:
        # nested primaries: one long primary over two or three short ones, a short secondary inside each short primary -
        # the long primary shares every secondary with a primary that is NOT its neighbour in the match list
        a = rng.randint(1, 2)
        b = a + rng.randint(0, 1)
        c = b + rng.randint(2, 3)
        d = min(T - 1, c + rng.randint(0, 1))
        P = [(1, 0, T - 1, 1), (2, a, b, 1), (3, c, d, 1)]
        S = [(101, a, a, 1), (102, c, d, 1)]
        if d + 2 <= T - 1 and rng.random() < 0.5:
            P.append((4, d + 2, T - 1, 1))
            S.append((103, d + 2, T - 1, 1))
    # align documents that secondaries completely overlapped by others must be excluded: keep (t0,t1) both increasing
    S.sort(key=lambda f: f[1])
    S = [f for k, f in enumerate(S) if all(f[2] > g[2] for g in S[:k])]
    pool = [f[0] for f in P] * 2 + [f[0] for f in S]               # unreadable primaries are the delicate case
    fail = set(rng.sample(pool, rng.choice([0, 1, 1]))) if pool else set()
    skip = bool(fail) and rng.random() < 0.7
    ta, tb = Tree(P, emb, "flat", "fullend"), Tree(S, emb, "Y", "fullend")
    log = EventLog()
    gate = Gate(rng=rng)
    Pool = make_gated_pool(log, gate)
    saved = FM.ThreadPoolExecutor
    reads_a, reads_b = [], []
    rep = {"abstract": {"P": P, "S": S, "fail": sorted(fail), "skip_errors": skip}}
    try:
        FM.ThreadPoolExecutor = Pool
        fa = ta.fileset(handler=make_handler(fail, reads_a), max_threads=rng.choice([1, 2, 3]))
        fb = tb.fileset(handler=make_handler(fail, reads_b), max_threads=rng.choice([1, 2, 3]))
        I = rng.choice([0, 1])
        matches = list(fa.match(fb, emb.t(0), emb.t(T), max_interval=I * emb.unit))
        exp = [(ta.ids([p])[0], tb.ids([s])[0]) for p, ss in matches for s in ss]
        fail = fail & ({p for p, _ in exp} | {s for _, s in exp})      # only files that align has to read can fail
        rep["abstract"]["fail"] = sorted(fail)
        got, err = [], None
        with warnings.catch_warnings():
            warnings.simplefilter("ignore")
            try:
                for (pi, pd_), (si, sd) in fa.align(fb, matches=matches, skip_errors=skip):
                    got.append((ta.ids([pi])[0], tb.ids([si])[0]))
                    if pd_ != got[-1][0] or sd != got[-1][1]:
                        col.violation("align-content-mismatch", dict(rep, observed=[got[-1], pd_, sd]))
            except TaskError as ex:
                err = ex.fid
        col.count(1)
        if fail and not skip:
            if err is None or err not in fail:
                col.violation("align-exception-lost", dict(rep, observed={"yielded": got, "raised": err}))
            elif got != exp[:len(got)] or any(p in fail or s in fail for p, s in got):
                col.violation("align-wrong-prefix-before-exception", dict(rep, expected=exp, observed=got))
        else:
            want = [(p, s) for p, s in exp if p not in fail and s not in fail]
            if err is not None:
                col.violation("align-raises-despite-skip_errors", dict(rep, observed=err))
            elif got != want:
                col.violation("align-wrong-pairs-or-order", dict(rep, expected=want, observed=got))
            needed_b = sorted({s for _, s in exp})
            if sorted(reads_b) != needed_b:
                col.violation("align-secondary-not-read-exactly-once", dict(rep, expected=needed_b, observed=sorted(reads_b)))
        col.nontrivial.add(("align", seed))
    except Exception as ex:
        from typhon.files.fileset import NoFilesError
        if not isinstance(ex, NoFilesError):
            col.violation("align-raises-" + type(ex).__name__ + ("-no-matches" if "not enough values" in str(ex) else ""),
                          dict(rep, observed=repr(ex)[:300]))
    finally:
        gate.close()
        FM.ThreadPoolExecutor = saved
        ta.remove()
        tb.remove()


def design_and_cases(ctx, n, w, lazy):
    d = ctx.tlc_dir("pool")
    cfg = "MCPool_%d_%d_%s.cfg" % (n, w, lazy)
    with open(os.path.join(d, cfg), "w") as f:
        f.write("CONSTANTS N = %d W = %d Lazy = %s\nSPECIFICATION FairSpec\nINVARIANT DesignRefinesProps\n"
                "INVARIANT PrefixSafe\nINVARIANT Emit\nPROPERTY Done\nPROPERTY RefinesInd\n" % (n, w, "TRUE" if lazy else "FALSE"))
    res = ctx.tlc(d, "PoolDesign", cfg, workers=16, coverage=False, timeout=5400)
    seen, out = set(), []
    for c in res.tagged("CASE"):
        key = (json.dumps(c["fail"]), c["e2w"], json.dumps(c["order"]))
        if key not in seen:
            seen.add(key)
            out.append(c)
    return out


def process_pool_run(col, seed):
    """Direction B with real process pools (ungated): results in file order, every file once."""
    rng = random.Random(seed)
    n = rng.randint(3, 12)
    tree = build(n)
    try:
        fs = tree.fileset()
        W = rng.choice([1, 2, 4])
        got = fs.map(_sleepy_id, max_workers=W, worker_type="process", return_info=True)
        ids = [tree.ids([i])[0] for i, _ in got]
        vals = [v for _, v in got]
        col.count(1)
        if ids != list(range(1, n + 1)) or vals != [os.path.basename(tree.path_of[i]) for i in range(1, n + 1)]:
            col.violation("process-map-wrong-order", {"abstract": {"n": n, "W": W}, "observed": ids})
        got = list(fs.imap(_sleepy_id, max_workers=W, worker_type="process", return_info=True))
        ids = [tree.ids([i])[0] for i, _ in got]
        col.count(1)
        if ids != list(range(1, n + 1)):
            col.violation("process-imap-wrong-order", {"abstract": {"n": n, "W": W}, "observed": ids})
    finally:
        tree.remove()


def _sleepy_id(info):
    import time
    time.sleep((hash(info.path) % 7) / 400.0)
    return os.path.basename(info.path)


def run(ctx):
    quick = ctx.tier == "quick"
    ctx.rule = ("PoolDesign.tla (FIFO executor with W workers; map submits all, imap keeps a deque of <= W futures and "
                "blocks on the oldest) is model-checked against PoolProps incl. termination, and every feasible completion "
                "order per fault choice becomes a replay: a gated ThreadPoolExecutor installed through "
                "typhon.files.fileset.ThreadPoolExecutor lets tasks finish in exactly that order; the recorded "
                "submit/start/finish/consume/raise events are validated against PoolProps by TLC (PoolTrace). "
                "Non-trivial: schedules with an out-of-order completion or a failing file.")
    # unbounded part: the window / running / in-order invariant of the history-free PoolWindowInd (which PoolDesign refines,
    # PROPERTY RefinesInd) is inductive for ALL N, W <= 12 and both modes (symbolic constants, Apalache)
    from vlib import apalache
    apalache.inductive(ctx, ctx.tlc_dir("pool"), "PoolWindowInd", cinit="ConstInit",
                       negative={"(Lazy => sub - cons < W)": "(Lazy => sub - cons <= W)"})
    configs = [(4, 2, True), (3, 2, False), (3, 1, True)] if quick else \
        [(5, 2, True), (5, 3, True), (5, 1, True), (4, 2, False), (4, 3, False)]      # (n = 6, and n = 5 for map, exceed 10^8 event prefixes)
    items = []
    for n, w, lazy in configs:
        cases = design_and_cases(ctx, n, w, lazy)
        if quick:
            cases = ctx.rng.sample(cases, min(len(cases), 60))
        for k, c in enumerate(cases):
            apis = (["imap", "icollect"] if lazy else ["map", "collect"])
            api = apis[k % 2]
            if api in ("collect", "icollect") and c["fail"] and not c["e2w"] and False:
                continue
            items.append((c, api, k))
    recs = []
    # replay sequentially in-process chunks (threads inside), parallel over processes
    results = []
    def worker(col, item):
        rec = replay_case(col, item)
        if rec is not None:
            col.extra.setdefault("_recs", []).append(rec)
    from vlib.par import Collector, merge
    import multiprocessing as mp
    pmap_collect(ctx, items, recs)
    ctx.traces += len(items)
    if ctx.notes.get("pool_not_instrumented"):
        ctx.notes["instrumentation_note"] = "some calls did not go through typhon.files.fileset.ThreadPoolExecutor: schedules could not be forced there"
    # validate the recorded logs with TLC
    for k, r in enumerate(recs):
        r["tid"] = k + 1
    tdir = ctx.tmpdir()
    path = os.path.join(tdir, "pool.ndjson")
    with open(path, "w") as f:
        for r in recs:
            f.write(json.dumps({k: r[k] for k in ("tid", "n", "W", "fail", "e2w", "lazy", "ev")}) + "\n")
    d = ctx.tlc_dir("pool")
    res = ctx.tlc(d, "PoolTrace", "PoolTrace.cfg", workers=1, env={"TRACE_FILE": path}, timeout=1500)
    acc = {t[0] for t in res.tuples("ACCEPT")}
    rej = {t[0]: t[1] for t in res.tuples("REJECT")}
    if len(acc) + len(rej) != len(recs):
        raise MachineryError("pool trace verdicts not total")
    ctx.traces += len(acc)
    for tid, clause in sorted(rej.items()):
        r = recs[tid - 1]
        ctx.violation("%s-violates-%s" % (r["concrete"]["api"], clause),
                      {"abstract": r["abstract"], "concrete": r["concrete"], "observed": {"events": r["ev"]},
                       "tlc": {"module": "PoolTrace", "failing_clause": clause}})
    if recs:
        ctx.sample({"schedule": recs[0]["abstract"], "events": recs[0]["ev"]})
        # binding demonstration: swap two consume events
        bad = json.loads(json.dumps(recs[0]))
        cons = [k for k, e in enumerate(bad["ev"]) if e[0] == "consume"]
        if len(cons) >= 2:
            bad["ev"][cons[0]], bad["ev"][cons[1]] = bad["ev"][cons[1]], bad["ev"][cons[0]]
            p2 = os.path.join(tdir, "bad.ndjson")
            with open(p2, "w") as f:
                f.write(json.dumps({k: bad[k] for k in ("tid", "n", "W", "fail", "e2w", "lazy", "ev")}) + "\n")
            res = ctx.tlc(d, "PoolTrace", "PoolTrace.cfg", workers=1, env={"TRACE_FILE": p2})
            if not list(res.tuples("REJECT")):
                raise MachineryError("binding demonstration failed: swapped consume events accepted")
            ctx.notes["binding_demo"] = "swapping two recorded consume events makes PoolTrace reject the log (clause Order)"
    # every file unreadable under error_to_warning: collect must return no content, not raise
    allfail = []
    for n in (1, 2, 3):
        c = {"n": n, "w": 2, "lazy": False, "fail": list(range(1, n + 1)), "e2w": True, "order": list(range(1, n + 1))}
        allfail += [(c, "collect", 1), (c, "icollect", 1), (c, "map", 1)]
    extra = []
    pmap_collect(ctx, allfail, extra)
    # AlignDesign: every match relation of the bound, failing files, skip_errors
    d = ctx.tlc_dir("pool")
    with open(os.path.join(d, "MCAlign.cfg"), "w") as f:
        f.write("CONSTANTS NP = %d NS = 3 MaxFail = 1\nSPECIFICATION Spec\nINVARIANT NeverOutOfStep\nINVARIANT AlignOK\n"
                "INVARIANT CacheMinimal\nINVARIANT ErrorsOnlyFromFailures\nINVARIANT PrefixRight\nPROPERTY Terminates\n" % (2 if quick else 3))
    ctx.tlc(d, "AlignDesign", "MCAlign.cfg", workers=16, timeout=2400)
    pmap(ctx, empty_selection, [0], procs=1)
    pmap(ctx, compressed_fileset, ["gz", "zip", "bz2", "xz"], procs=1)
    pmap(ctx, bundles, [ctx.seed * 13 + i for i in range(12 if quick else 150)])
    pmap(ctx, align_case, [ctx.seed * 100 + i for i in range(160 if quick else 1500)])
    pmap(ctx, process_pool_run, [ctx.seed * 7 + i for i in range(4 if quick else 40)], procs=1)


def _replay_chunk(chunk):
    import faulthandler
    faulthandler.dump_traceback_later(600, exit=True)      # a stuck replay must end the check (exit 2), never hang it
    from vlib.par import Collector
    col = Collector()
    recs = []
    for item in chunk:
        r = replay_case(col, item)
        if r is not None:
            recs.append(r)
    return col, recs


def pmap_collect(ctx, items, recs):
    import multiprocessing as mp
    from vlib.par import merge
    chunks = [items[i::16] for i in range(16) if items[i::16]]
    with mp.get_context("fork").Pool(len(chunks)) as pool:
        it = pool.imap_unordered(_replay_chunk, chunks)
        for _ in range(len(chunks)):
            try:
                col, rs = it.next(timeout=700)
            except mp.TimeoutError:
                pool.terminate()
                raise MachineryError("a gated replay worker died or hung")
            merge(ctx, col)
            recs.extend(rs)
