#!/venv/bin/python
"""Evaluate independently seeded changes.  Source of a seed: /tmp/wt-<PID>/seeded/<k>/ (fresh from a sub-agent) or, if
that is gone, /verif/seeded/<PID>-<k>/.  A scratch git worktree of /repo's current HEAD is created under the system
temp directory, the patch applied there, and then: (a) the demo must fail with the patch and pass without it, (b) the
pinned test-suite result must be unchanged with the patch, (c) the property's check(s) are run against the patched
worktree (VERIF_REPO) and the detection is recorded in /verif/seeded/<PID>-<k>/meta.json.  The worktree is removed.
Usage: seeded_eval.py <PID> [<PID> ...] [--tier quick|thorough] [--also Cxx,Cyy]"""
import json
import os
import re
import shutil
import subprocess
import sys

VERIF = os.path.dirname(os.path.dirname(os.path.abspath(__file__)))


def sh(cmd, cwd=None, env=None, timeout=3600):
    p = subprocess.run(cmd, shell=True, cwd=cwd, env=env, text=True, stdout=subprocess.PIPE, stderr=subprocess.STDOUT, timeout=timeout)
    return p.returncode, p.stdout


ROUND = 1
# seeds whose change lives in code that another property's check owns: those checks are run as well
ALSO = {"C05-2": ["C10"], "C05-3": ["C03"], "C05-4": ["C02"], "C10-4": ["C12"], "C11-3": ["C02"], "C11-4": ["C12"],
        "C01-3": ["C02"], "C16-2": ["C02"], "C05-5": ["C03"], "C11-5": ["C01"], "C11-6": ["C10"], "C16-5": ["C01"], "C11-7": ["C02"], "C11-10": ["C01"], "C14-9": ["C09"], "C16-10": ["C02"], "C11-12": ["C01"], "C03-12": ["C01"], "C05-11": ["C04"], "C03-13": ["C02"], "C03-14": ["C01"], "C05-14": ["C04"], "C16-14": ["C02"], "C05-15": ["C01"], "C03-15": ["C02", "C01"], "C16-15": ["C02"]}


def source_dir(pid, k):
    """round 1: /tmp/wt-<PID>/seeded/<k> -> seed <PID>-<k>;  round r: /tmp/wt<r>-<PID>/seeded/<k> -> seed <PID>-<k + 2(r-1)>"""
    base = "/tmp/wt-%s" % pid if ROUND == 1 else "/tmp/wt%d-%s" % (ROUND, pid)
    return os.path.join(base, "seeded", str(k))


def seed_index(k):
    return k + 2 * (ROUND - 1)


def evaluate(pid, k, tier, also):
    sd = source_dir(pid, k)
    if not os.path.exists(os.path.join(sd, "patch.diff")):
        sd = os.path.join(VERIF, "seeded", "%s-%d" % (pid, seed_index(k)))
        if not os.path.exists(os.path.join(sd, "patch.diff")):
            return None
    import tempfile
    wt = tempfile.mkdtemp(prefix="verif-seedwt-")
    os.rmdir(wt)
    head = sh("git -C /repo rev-parse HEAD")[1].strip()
    rc, o = sh("git -C /repo worktree add -q --detach %s %s" % (wt, head))     # seeds are judged on top of /repo's current HEAD
    if rc != 0:
        return {"property": pid, "k": k, "error": "cannot create worktree: " + o[-200:]}
    try:
        return _evaluate_in(wt, sd, pid, k, tier, also, head)
    finally:
        sh("git -C /repo worktree remove --force %s" % wt)
        shutil.rmtree(wt, ignore_errors=True)


def _evaluate_in(wt, sd, pid, k, tier, also, head):
    env = dict(os.environ, PYTHONPATH=wt)
    out = {"property": pid, "k": seed_index(k), "repo_head": head[:7]}
    rc, o = sh("git apply %s" % os.path.join(sd, "patch.diff"), cwd=wt)
    if rc != 0:
        # a later `fix:` commit changed lines next to the seeded change: re-base the patch by a three-way merge on the
        # blobs it names (they are in /repo's history); the re-based diff replaces the stored one, the original is kept
        rc3, o3 = sh("git apply --3way %s" % os.path.join(sd, "patch.diff"), cwd=wt)
        conflict = sh("git diff --name-only --diff-filter=U", cwd=wt)[1].strip()
        if rc3 != 0 or conflict:
            sh("git reset -q --hard HEAD", cwd=wt)
            out["error"] = "patch does not apply (also not with --3way): " + (o3 or o)[-300:]
            return out
        sh("git reset -q", cwd=wt)
        rebased = sh("git diff", cwd=wt)[1]
        out["rebased_onto"] = head[:7]
        if os.path.dirname(sd).endswith("seeded") and sd.startswith(VERIF):
            if not os.path.exists(os.path.join(sd, "patch.orig.diff")):
                shutil.copy(os.path.join(sd, "patch.diff"), os.path.join(sd, "patch.orig.diff"))
            with open(os.path.join(sd, "patch.diff"), "w") as f:
                f.write(rebased)
    try:
        rc1, o1 = sh("/venv/bin/python -W ignore %s" % os.path.join(sd, "demo.py"), cwd=wt, env=env, timeout=900)
        out["demo_with_patch_rc"] = rc1
        rc, o = sh("/venv/bin/python -m pytest -q -p no:cacheprovider --timeout=900 --continue-on-collection-errors 2>&1 | tail -1", cwd=wt, env=env)
        out["suite_with_patch"] = o.strip()[-120:]
        checks = {}
        for c in [pid] + also:
            e = dict(os.environ, VERIF_REPO=wt, VERIF_NO_EVIDENCE="1", VERIF_REPLAY_DIR="/tmp/seeded-replays-%s-%s" % (pid, k))
            rc, o = sh("%s/bin/check %s --tier %s" % (VERIF, c, tier), env=e, timeout=7200)
            fps = sorted({l.split("replay=")[1].split("/")[-1].replace(c + "-", "").rsplit("-", 1)[0]
                          for l in o.splitlines() if l.startswith("VIOLATION")})
            checks[c] = {"rc": rc, "fingerprints": fps[:12], "tail": o.strip().splitlines()[-1][-200:] if o.strip() else ""}
            shutil.rmtree("/tmp/seeded-replays-%s-%s" % (pid, k), ignore_errors=True)
        out["checks"] = checks
    finally:
        sh("git reset -q --hard HEAD", cwd=wt)
    rc0, o0 = sh("/venv/bin/python -W ignore %s" % os.path.join(sd, "demo.py"), cwd=wt, env=env, timeout=900)
    out["demo_without_patch_rc"] = rc0
    out["confirmed"] = (out["demo_with_patch_rc"] not in (0,)) and rc0 == 0 and "123 passed" in out["suite_with_patch"]
    out["detected_by"] = [c for c, v in out.get("checks", {}).items() if v["rc"] == 1]
    return out


def main():
    global ROUND
    args = sys.argv[1:]
    tier = "quick"
    also = []
    if "--round" in args:
        i = args.index("--round"); ROUND = int(args[i + 1]); del args[i:i + 2]
    if "--tier" in args:
        i = args.index("--tier"); tier = args[i + 1]; del args[i:i + 2]
    if "--also" in args:
        i = args.index("--also"); also = args[i + 1].split(","); del args[i:i + 2]
    for pid in args:
        for k in ((1, 2) if ROUND > 1 else range(1, 13)):
            r = evaluate(pid, k, tier, sorted(set(also + ALSO.get("%s-%d" % (pid, seed_index(k)), []))))
            if r is None:
                continue
            print(json.dumps(r), flush=True)
            sd = source_dir(pid, k)
            dst = os.path.join(VERIF, "seeded", "%s-%d" % (pid, seed_index(k)))
            os.makedirs(dst, exist_ok=True)
            if os.path.exists(os.path.join(sd, "patch.diff")):
                for f in ("patch.diff", "demo.py"):
                    shutil.copy(os.path.join(sd, f), dst)
            else:
                sd = dst
            try:
                meta = json.load(open(os.path.join(sd, "meta.json")))
                meta.pop("evaluation_by_main_session", None)
            except Exception:
                meta = {}
            meta["evaluation_by_main_session"] = r
            with open(os.path.join(dst, "meta.json"), "w") as f:
                json.dump(meta, f, indent=1)


if __name__ == "__main__":
    main()
