"""C06 -- GeoIndex.query against GeoIndexProps; shuffle permutations forced through numpy.random.shuffle."""
import itertools
import json
import os

import numpy as np

import ring
from vlib.par import pmap
from vlib.tlc import MachineryError

N = 8
EMB = ring.embeddings(N)


class ForcedShuffle:
    """Replaces numpy.random.shuffle for one GeoIndex construction: installs a given permutation."""
    def __init__(self, perm):
        self.perm, self.used = perm, 0

    def __enter__(self):
        self.orig = np.random.shuffle
        def shuffle(x):
            self.used += 1
            if self.perm is not None and len(x) == len(self.perm):
                x[:] = np.asarray(self.perm)
            else:
                self.orig(x)
        np.random.shuffle = shuffle
        return self

    def __exit__(self, *a):
        np.random.shuffle = self.orig


# every unit spelling typhon.geographical advertises, with the TRUE length of the unit in kilometres
UNIT_KM = {"cm": 1e-5, "centimeter": 1e-5, "centimeters": 1e-5, "m": 1e-3, "meter": 1e-3, "meters": 1e-3,
           "km": 1.0, "kilometer": 1.0, "kilometers": 1.0, "mi": 1.609344, "mile": 1.609344, "miles": 1.609344,
           "yd": 0.9144e-3, "yds": 0.9144e-3, "yard": 0.9144e-3, "yards": 0.9144e-3,
           "ft": 0.3048e-3, "foot": 0.3048e-3, "feet": 0.3048e-3}


def radius_spellings(km):
    """The same radius written in every supported way (thresholds sit mid-gap, so rounding in the unit conversion is harmless)."""
    out = [km, float(km), "%rkm" % km, "%r" % km, " %r " % km]            # (a number in a string, no unit: kilometres)
    out += ["%r %s" % (km / f, u) for u, f in sorted(UNIT_KM.items())]
    # whole kilometres as numpy integer scalars (what `arr.max()` of an integer table hands over): mid-gap thresholds lie
    # hundreds of km from either class, so rounding to a whole kilometre selects the same pairs; the extreme radii (exactly
    # half the circumference; beyond the diameter) are not rounded
    whole = 200 < km < 19000
    out += [np.int16(round(km)) if whole else km, np.uint16(round(km)) if whole else float(km), np.int32(round(km)) if whole else km]
    return out


N_SPELLINGS = 8 + len(UNIT_KM)


def run_query(B, Q, k, emb_name, metric, tree, leaf, perm, spelling, shuffle=True, return_distance=True):
    from typhon.geographical import GeoIndex
    emb = EMB[emb_name]
    lat, lon = ring.latlon(emb, B)
    qlat, qlon = ring.latlon(emb, Q)
    km = ring.threshold_km(k, N, metric)
    r = radius_spellings(km)[spelling]
    keep = [a.copy() for a in (lat, lon, qlat, qlon)]
    with ForcedShuffle(perm) as fsh:
        idx = GeoIndex(lat, lon, metric=metric, tree_class=tree, shuffle=shuffle, leaf_size=leaf)
    res = idx.query(qlat, qlon, r, return_distance=return_distance)
    if not all(np.array_equal(a, b) for a, b in zip(keep, (lat, lon, qlat, qlon))):
        raise AssertionError("GeoIndex overwrote the coordinate arrays it was given")
    if return_distance:
        pairs, dist = res
    else:
        pairs, dist = res, None
    pairs = np.asarray(pairs)
    if pairs.size == 0:
        return [], [], fsh.used
    plist = [(int(a) + 1, int(b) + 1) for a, b in zip(pairs[0], pairs[1])]
    cls = [ring.classify(float(d), N, metric) for d in dist] if dist is not None else None
    return plist, cls, fsh.used


def run_self_query(B, k, emb_name, perm):
    """The index is queried with the very array objects it was built from."""
    from typhon.geographical import GeoIndex
    lat, lon = ring.latlon(EMB[emb_name], B)
    with ForcedShuffle(perm) as fsh:
        idx = GeoIndex(lat, lon)
    pairs, dist = idx.query(lat, lon, ring.threshold_km(k, N, "minkowski"))
    pairs = np.asarray(pairs)
    if pairs.size == 0:
        return [], [], fsh.used
    return [(int(a) + 1, int(b) + 1) for a, b in zip(pairs[0], pairs[1])], [ring.classify(float(d), N, "minkowski") for d in dist], fsh.used


def check_result(col, case, k, exp, got, conf):
    plist, cls, _ = got
    exp_pairs = sorted((a, b) for a, b, _ in exp)
    exp_cls = {(a, b): c for a, b, c in exp}
    rep = {"abstract": {"N": N, "B": case["B"], "Q": case["Q"], "k": k}, "concrete": conf,
           "expected": exp, "tlc": {"module": "GeoCases", "oracle": "Within/RingDist"}}
    only00 = exp_pairs == [(conf.get("first_tree_hit", -1), 1)]
    if conf.get("metric") == "haversine" and k >= N // 2 and sorted(plist) != exp_pairs:
        # a radius of exactly half the circumference and exactly antipodal points: a knife edge (one ulp in either the
        # radius conversion or the distance decides) - the answer without the antipodal pairs is accepted as well
        rest = sorted(p for p in exp_pairs if exp_cls[p] < N // 2)
        if sorted(plist) == rest:
            exp_pairs = rest
    if sorted(plist) != exp_pairs:
        if len(plist) == len(exp_pairs) and sorted(b for _, b in plist) == sorted(b for _, b in exp_pairs):
            fp = "build-index-not-translated"
        elif not plist:
            fp = "result-lost"
        else:
            fp = "wrong-pairs"
        col.violation(fp + "-" + conf["metric"], dict(rep, observed={"pairs": plist, "cls": cls}))
        return
    if cls is not None:
        bad = [(p, c, exp_cls[p]) for p, c in zip(plist, cls) if c != exp_cls[p]]
        if bad:
            col.violation("wrong-distance-" + conf["metric"], dict(rep, observed={"pairs": plist, "cls": cls}))


def replay_case(col, item):
    case, mode = item
    B, Q = case["B"], case["Q"]
    nB = len(B)
    perms = list(itertools.permutations(range(nB)))
    confs = []
    if mode == "quick":
        # every permutation once, configuration rotating with it
        for n, perm in enumerate(perms):
            confs.append((list(EMB)[n % 3], ["minkowski", "haversine"][n % 2], ["Ball", "KD", None][n % 3] if n % 2 == 0 else "Ball",
                          [1, 2, 40][n % 3], perm, (5 * n + 3 * len(B) + 7 * len(Q) + sum(B)) % N_SPELLINGS))
    else:
        for n, perm in enumerate(perms):
            for e in EMB:
                for metric in ("minkowski", "haversine"):
                    for tree in (("Ball", "KD") if metric == "minkowski" else ("Ball",)):
                        confs.append((e, metric, tree, [1, 2, 40][n % 3], perm, (5 * n + len(confs)) % N_SPELLINGS))
    for k_s, exp in case["byk"].items():
        k = int(k_s)
        for emb_name, metric, tree, leaf, perm, sp in confs:
            if metric == "haversine" and k >= N // 2:
                # the arc metric's largest class is queried with EXACTLY half the circumference (a radius beyond it is
                # meaningless: the tree's reduced distance wraps); written as a bare number, because a unit round trip
                # may land one ulp above it
                sp = 0
            conf = {"embedding": emb_name, "metric": metric, "tree": tree, "leaf_size": leaf, "perm": list(perm),
                    "r_spelling": sp}
            try:
                got = run_query(B, Q, k, emb_name, metric, tree, leaf, perm, sp)
            except Exception as ex:
                col.violation("query-raises-" + type(ex).__name__,
                              {"abstract": {"N": N, "B": B, "Q": Q, "k": k}, "concrete": conf, "observed": repr(ex)})
                continue
            if got[2] == 0:
                col.bump("shuffle_not_instrumented")
            col.count(1)
            col.bump("spelling_%02d" % sp)
            check_result(col, case, k, exp, got, conf)
        # the same query points repeated to several thousand (sizes that do not divide evenly into blocks of 1024 / 2048 / 4096)
        for big in ((2501,) if (len(B) + len(Q) + k) % 2 else (4099,)):
            reps = -(-big // len(Q))
            Qb = (list(Q) * reps)[:big]
            expb = [(a, j + 1, c) for j in range(big) for a, b, c in exp if b == (j % len(Q)) + 1]
            conf = {"embedding": "tilted", "metric": "minkowski", "tree": "Ball", "leaf_size": 40, "perm": list(perms[-1]),
                    "query_points_repeated_to": big}
            try:
                got = run_query(B, Qb, k, "tilted", "minkowski", "Ball", 40, perms[-1], 0)
                col.count(1)
                check_result(col, dict(case, Q="Q repeated to %d points" % big), k, expb, got, conf)
            except Exception as ex:
                col.violation("query-raises-" + type(ex).__name__, {"abstract": {"N": N, "B": B, "Q": Q, "k": k}, "concrete": conf,
                                                                    "observed": repr(ex)[:200]})
        # ONE radius value that sits mid-gap for both metrics (between arc(k) and chord(k+1)), handed to an index of each
        # metric in the same process, chord first or arc first: each index converts it for itself
        if ring.arc_km(k, N) < ring.chord_km(k + 1, N) and k + 1 <= N // 2:
            from typhon.geographical import GeoIndex
            r_common = (ring.arc_km(k, N) + ring.chord_km(k + 1, N)) / 2
            lat, lon = ring.latlon(EMB["tilted"], B)
            qlat, qlon = ring.latlon(EMB["tilted"], Q)
            order = ("minkowski", "haversine") if (len(B) + k) % 2 else ("haversine", "minkowski")
            for spelled in (r_common, "%r km" % r_common):
                for metric in order:
                    conf = {"embedding": "tilted", "metric": metric, "same_radius_value_for_both_metrics": spelled, "order": list(order)}
                    try:
                        with ForcedShuffle(perms[0]):
                            idx = GeoIndex(lat, lon, metric=metric)
                        pairs, dist = idx.query(qlat, qlon, spelled)
                        pairs = np.asarray(pairs)
                        got = ([], [], 1) if pairs.size == 0 else ([(int(a) + 1, int(b) + 1) for a, b in zip(pairs[0], pairs[1])],
                                                                   [ring.classify(float(x), N, metric) for x in dist], 1)
                        col.count(1)
                        check_result(col, case, k, exp, got, conf)
                    except Exception as ex:
                        col.violation("query-raises-" + type(ex).__name__, {"abstract": {"N": N, "B": B, "Q": Q, "k": k}, "concrete": conf,
                                                                            "observed": repr(ex)[:200]})
        # whole-degree coordinates passed as INTEGER arrays (equator embedding: lat 0, lon multiples of 45)
        for metric in ("minkowski", "haversine"):
            if metric == "haversine" and k >= N // 2:
                pass        # (integer-typed coordinates: same exact radius, bare number)
            conf = {"embedding": "equator", "metric": metric, "integer_typed_coordinates": True, "perm": list(perms[0])}
            try:
                from typhon.geographical import GeoIndex
                lat, lon = ring.latlon(EMB["equator"], B)
                qlat, qlon = ring.latlon(EMB["equator"], Q)
                with ForcedShuffle(perms[0]):
                    idx = GeoIndex(lat.astype(int), lon.astype(int), metric=metric)
                pairs, dist = idx.query(qlat.astype(int), qlon.astype(int), ring.threshold_km(k, N, metric))
                pairs = np.asarray(pairs)
                got = ([], [], 1) if pairs.size == 0 else ([(int(a) + 1, int(b) + 1) for a, b in zip(pairs[0], pairs[1])],
                                                           [ring.classify(float(x), N, metric) for x in dist], 1)
                col.count(1)
                check_result(col, case, k, exp, got, conf)
            except Exception as ex:
                col.violation("query-raises-" + type(ex).__name__, {"abstract": {"N": N, "B": B, "Q": Q, "k": k}, "concrete": conf,
                                                                    "observed": repr(ex)[:200]})
        # self-query with identical array objects, under the last (most scrambled) permutation
        if "self" in case:
            conf = {"embedding": "tilted", "metric": "minkowski", "self_query_same_objects": True, "perm": list(perms[-1])}
            try:
                got = run_self_query(B, k, "tilted", perms[-1])
                col.count(1)
                check_result(col, dict(case, Q=B), k, case["self"][k_s], got, conf)
            except Exception as ex:
                col.violation("query-raises-" + type(ex).__name__, {"abstract": {"N": N, "B": B, "Q": "same objects", "k": k},
                                                                    "concrete": conf, "observed": repr(ex)[:200]})
        # shuffle off and return_distance=False are configurations of the same property
        conf = {"embedding": "equator", "metric": "minkowski", "tree": "Ball", "leaf_size": 40, "perm": None, "shuffle": False}
        try:
            got = run_query(B, Q, k, "equator", "minkowski", "Ball", 40, None, 0, shuffle=False)
            col.count(1)
            check_result(col, case, k, exp, got, conf)
            perm = perms[-1]
            conf = dict(conf, perm=list(perm), shuffle=True, return_distance=False)
            got = run_query(B, Q, k, "equator", "minkowski", "Ball", 40, perm, 0, return_distance=False)
            col.count(1)
            check_result(col, case, k, exp, got, conf)
        except Exception as ex:
            col.violation("query-raises-" + type(ex).__name__,
                          {"abstract": {"N": N, "B": B, "Q": Q, "k": k}, "concrete": conf, "observed": repr(ex)})
        if any(c in (k, ) for _, _, c in exp) or any(True for _ in exp):
            col.nontrivial.add((json.dumps(B), json.dumps(Q), k))


def record_sessions(ctx, n, path):
    """Direction B: larger random point sets on a finer ring, real seeded shuffles."""
    from typhon.geographical import GeoIndex
    rng = ctx.rng
    np.random.seed(ctx.seed % (2 ** 32))
    NN = 24
    embs = ring.embeddings(NN)
    recs = []
    with open(path, "w") as f:
        for tid in range(1, n + 1):
            nb = rng.choice([1, 2, 5, 30, 200] + ([1000, 4000] if n > 100 else []))
            B = [rng.randrange(NN) for _ in range(nb)]
            emb = embs[rng.choice(list(embs))]
            metric = rng.choice(["minkowski", "haversine"])
            tree = rng.choice(["Ball", "KD"]) if metric == "minkowski" else "Ball"
            lat, lon = ring.latlon(emb, B)
            idx = GeoIndex(lat, lon, metric=metric, tree_class=tree, leaf_size=rng.choice([1, 3, 40]))
            calls = []
            for _ in range(4):
                Q = [rng.randrange(NN) for _ in range(rng.choice([1, 3, 10]))]
                k = rng.randrange(0, NN // 2 + (1 if metric == "minkowski" else 0))
                d = ring.chord_km if metric == "minkowski" else ring.arc_km
                km = d(NN // 2, NN) * 1.01 if k >= NN // 2 else (d(k, NN) + d(k + 1, NN)) / 2
                qlat, qlon = ring.latlon(emb, Q)
                try:
                    pairs, dist = idx.query(qlat, qlon, rng.choice([km, "%r km" % km, "%r m" % (km * 1000)]))
                    pairs = np.asarray(pairs)
                    if pairs.size == 0:
                        pl, cl = [], []
                    else:
                        pl = [[int(a) + 1, int(b) + 1] for a, b in zip(pairs[0], pairs[1])]
                        cl = [ring.classify(float(x), NN, metric) for x in dist]
                    calls.append({"Q": Q, "k": k, "ok": True, "pairs": pl, "cls": cl})
                except Exception as ex:
                    calls.append({"Q": Q, "k": k, "ok": False, "pairs": [], "cls": [], "err": repr(ex)[:100]})
            rec = {"tid": tid, "N": NN, "B": B, "calls": calls, "concrete": {"metric": metric, "tree": tree}}
            recs.append(rec)
            f.write(json.dumps(rec) + "\n")
            ctx.count(len(calls))
    return recs


def run(ctx):
    quick = ctx.tier == "quick"
    ctx.rule = ("TLC enumerates build/query position sequences on a ring of 8 positions with the oracle pair set and "
                "distance class for every radius class; each is replayed on GeoIndex for every permutation of the build "
                "points (installed through numpy.random.shuffle), three great-circle embeddings (date line, poles, "
                "tilted), both metrics, both trees, leaf sizes, every supported spelling of r (19 units, bare numbers), shuffle off, queries of 2501 / 4099 points and "
                "return_distance=False. Non-trivial: (B, Q, k) with at least one pair to report.")
    d = ctx.tlc_dir("geo")
    with open(os.path.join(d, "MCShuffle.cfg"), "w") as f:
        f.write("CONSTANTS N = 6 MaxB = %d MaxQ = %d\nSPECIFICATION Spec\nINVARIANT DesignRefinesProps\n" % ((3, 1) if quick else (4, 2)))
    res = ctx.tlc(d, "ShuffleDesign", "MCShuffle.cfg", workers=16, coverage=True, timeout=1200)
    cov = res.coverage()
    for a in ("Build", "RawQuery", "Translate"):
        if cov.get(a, (0, 0))[1] == 0:
            raise MachineryError("vacuous ShuffleDesign run: %s never taken" % a)
    with open(os.path.join(d, "MCReach.cfg"), "w") as f:
        f.write("CONSTANTS N = 6 MaxB = 2 MaxQ = 1\nSPECIFICATION Spec\nINVARIANT OnlyFirstFirst\n")
    ctx.tlc(d, "ShuffleDesign", "MCReach.cfg", workers=4, must_hold=False)
    ctx.notes["reachability"] = "the 'only raw pair is (tree index 1, query 1)' state is reachable (expected counterexample found)"
    with open(os.path.join(d, "MCGeo.cfg"), "w") as f:
        f.write("CONSTANTS N = %d MaxB = 4 MaxQ = 2 NSample = %d\nINIT Init\nNEXT Next\nINVARIANT Emit\n" % (N, 260 if quick else 2500))
    res = ctx.tlc(d, "GeoCases", "MCGeo.cfg", workers=1, seed=ctx.seed, timeout=900)
    cases = list(res.tagged("CASE"))
    with open(os.path.join(d, "MCGeo1.cfg"), "w") as f:
        f.write("CONSTANTS N = %d MaxB = 2 MaxQ = 1 NSample = 0\nINIT Init\nNEXT Next\nINVARIANT Emit\n" % N)
    res = ctx.tlc(d, "GeoCases", "MCGeo1.cfg", workers=1, timeout=900)
    cases += list(res.tagged("CASE"))
    if len(cases) < 100:
        raise MachineryError("too few geo cases")
    pmap(ctx, replay_case, [(c, ctx.tier) for c in cases])
    unused = [i for i in range(N_SPELLINGS) if not ctx.notes.get("spelling_%02d" % i)]
    if unused:
        raise MachineryError("radius spellings never used: %r" % unused)
    for i in range(N_SPELLINGS):
        ctx.notes.pop("spelling_%02d" % i, None)
    ctx.notes["radius_spellings"] = "all %d spellings exercised: %s" % (N_SPELLINGS, ", ".join(map(str, radius_spellings(5.0))))
    if ctx.notes.get("shuffle_not_instrumented"):
        ctx.notes["shuffle_note"] = ("numpy.random.shuffle was not called by GeoIndex in some constructions: permutations "
                                     "could not be forced there (results are still judged, they may not depend on it)")
    ctx.traces += len(cases)
    ctx.sample({"B": cases[0]["B"], "Q": cases[0]["Q"], "oracle_by_class": cases[0]["byk"]})
    tdir = ctx.tmpdir()
    path = os.path.join(tdir, "geo.ndjson")
    n = 60 if quick else 600
    recs = record_sessions(ctx, n, path)
    res = ctx.tlc(d, "GeoTrace", "GeoTrace.cfg", workers=1, env={"TRACE_FILE": path}, timeout=900)
    acc = {t[0] for t in res.tuples("ACCEPT")}
    rej = {t[0]: t[1] for t in res.tuples("REJECT")}
    if len(acc) + len(rej) != n:
        raise MachineryError("trace verdicts not total")
    ctx.traces += len(acc)
    for tid, kk in sorted(rej.items()):
        r = recs[tid - 1]
        c = r["calls"][kk - 1]
        ctx.violation("trace-" + ("raises" if not c["ok"] else "wrong-result") + "-" + r["concrete"]["metric"],
                      {"abstract": {"N": r["N"], "B": r["B"], "call": c}, "concrete": r["concrete"],
                       "tlc": {"module": "GeoTrace", "first_unexplained_call": kk}})
