"""C05 -- collocate_filesets / Collocations.search against 'collocating all the data at once' (CollocProps on
the union), for real worker processes, thread-backed fake processes with randomised queue timing, bundle
modes, output kinds and file splits; the result queue design is model-checked separately."""
import json
import os
import pickle
import shutil
import tempfile
import warnings

import numpy as np

import c04
import collmodel as cm
import ring
from vlib.par import pmap
from vlib.tlc import MachineryError

N = 8
EMB = ring.embeddings(N)
NAME = "{year}{month}{day}{hour}{minute}{second}-{end_year}{end_month}{end_day}{end_hour}{end_minute}{end_second}"


def handler(fail_paths=()):
    from typhon.files.handlers.common import FileHandler

    def reader(file_info, **kw):
        if os.path.basename(file_info.path) in fail_paths:
            raise IOError("unreadable file (injected)")
        with open(file_info.path, "rb") as f:
            return pickle.load(f)

    def writer(data, file_info, **kw):
        with open(file_info.path, "wb") as f:
            pickle.dump(data, f)
    return FileHandler(reader=reader, writer=writer)


SPLITS = {
    "per-tick": lambda T: [(t, t) for t in range(T)],
    "pairs": lambda T: [(a, min(a + 1, T - 1)) for a in range(0, T, 2)],
    "thirds": lambda T: [(0, 0)] + [(a, min(a + 2, T - 1)) for a in range(1, T, 3)],
    "single": lambda T: [(0, T - 1)],
}


def to_dt(t):
    import datetime as dt
    return (cm.BASE + int(t) * cm.TICK).astype("datetime64[us]").astype(dt.datetime)


def write_side(root, name, points, emb, split, T, layout="flat"):
    """points: list of (t, pos) with global ids 1..n; one pickle file per segment that holds at least one point.
    layout "daydirs" (segments of equal length only): day sub-directories, names that spell the START only and a fixed
    time_coverage - the ticks cross midnight, so a file of the last directory of the year reaches into the next day."""
    from typhon.files import FileSet
    os.makedirs(root)
    if layout == "daydirs" and split in ("per-tick", "pairs"):
        fs = FileSet(os.path.join(root, "{year}", "{month}", "{day}", "{hour}{minute}{second}.pkl"), handler=handler(), name=name,
                     max_threads=2, time_coverage=__import__("datetime").timedelta(seconds=59 if split == "per-tick" else 119))
    else:
        fs = FileSet(os.path.join(root, NAME + ".pkl"), handler=handler(), name=name, max_threads=2)
    files = []
    for a, b in SPLITS[split](T):
        idx = [i for i, p in enumerate(points) if a <= p[0] <= b]
        if not idx:
            continue
        ds = cm.dataset([points[i] for i in idx], emb, "linear", ids=[i + 1 for i in idx])
        path = fs.get_filename((to_dt(a), to_dt(b) + __import__("datetime").timedelta(seconds=59)))
        os.makedirs(os.path.dirname(path), exist_ok=True)
        with open(path, "wb") as f:
            pickle.dump(ds, f)
        files.append(os.path.basename(path))
    return fs, files


def harvest(results, names=("A", "B"), in_memory=False):
    """-> list of [pid, sid] over all yielded compact datasets (expanded through the pair indices)"""
    out = []
    spans = []
    misnamed = []
    for res in results:
        data = res[0] if isinstance(res, tuple) else res
        pairs = np.asarray(data["Collocations/pairs"].values).astype(int)      # the NetCDF reader widens ints to floats (not judged)
        out += [[int(a), int(b)] for a, b in zip(data[names[0] + "/id"].values[pairs[0]], data[names[1] + "/id"].values[pairs[1]])]
        spans.append((str(data[names[0] + "/time"].values.min())[:19], str(data[names[0] + "/time"].values.max())[:19]))
        # a yielded dataset announces the time span of the primary points it holds (output files are named by it)
        said = (str(data.attrs.get("start_time"))[:19].replace(" ", "T"), str(data.attrs.get("end_time"))[:19].replace(" ", "T"))
        if in_memory and said != spans[-1]:
            misnamed.append({"announced": said, "holds": spans[-1]})
    harvest.misnamed = misnamed
    return out, spans


def name_check(out, names, held):
    """An output file is named by the time span of the (primary points of the) collocations it holds."""
    harvest.misnamed = []
    for n_, h in zip(sorted(set(names)), held):
        ti = out.get_info(n_).times
        said = (ti[0].isoformat()[:19], ti[1].isoformat()[:19])
        if said != h:
            harvest.misnamed.append({"file": os.path.basename(n_), "holds": h})


def one_run(case, row, conf, fakes=None, seed=0):
    """Runs collocate_filesets once; returns dict(got pairs, expected pairs, events, spans, error)."""
    import typhon.collocations.collocator as CM
    from typhon.collocations import Collocations, Collocator
    I, k, ws, we, E = row
    P = [tuple(p) for p in case["P"]]
    S = [tuple(p) for p in case["S"]]
    T = conf["T"]
    emb = EMB[conf["embedding"]]
    root = tempfile.mkdtemp(prefix="verif-c05-")
    saved = (CM.Process, CM.Queue)
    world = None
    try:
        fa, files_a = write_side(os.path.join(root, "a"), "A", P, emb, conf["split_a"], T, conf.get("layout", "flat"))
        fb, files_b = write_side(os.path.join(root, "b"), "B", S, emb, conf["split_b"], T, conf.get("layout", "flat"))
        bad = conf.get("unreadable")
        removed = set()
        if bad is not None:
            side, n = bad
            files = files_a if side == "a" else files_b
            if files:
                victim = files[n % len(files)]
                (fa if side == "a" else fb).handler = handler((victim,))
                # collocations involving points stored in the unreadable file are the only ones that may disappear
                a0, b0 = None, None
                for seg in SPLITS[conf["split_a" if side == "a" else "split_b"]](T):
                    pth = (fa if side == "a" else fb).get_filename((to_dt(seg[0]), to_dt(seg[1]) + __import__("datetime").timedelta(seconds=59)))
                    if os.path.basename(pth) == victim:
                        a0, b0 = seg
                pts = P if side == "a" else S
                removed = {i + 1 for i, p in enumerate(pts) if a0 <= p[0] <= b0}
        if fakes is not None:
            import fakeproc
            world = fakeproc.FakeWorld(seed)
            CM.Process, CM.Queue = fakeproc.make_fakes(world)
        out = None
        if conf["output"] == "fileset":
            out = Collocations(os.path.join(root, "out", NAME + ".nc"), read_mode="compact", name="out")
        kw = dict(start=cm.window_arg(ws, we)[0], end=cm.window_arg(ws, we)[1], processes=conf["K"], bundle=conf["bundle"],
                  max_interval=cm.interval_arg(I, 0), max_distance=cm.distance_arg(k, N, 0),
                  skip_file_errors=bad is not None)
        col = Collocator()
        from typhon.files.fileset import NoFilesError
        nofiles = False
        with warnings.catch_warnings():
            warnings.simplefilter("ignore")
            try:
                if out is None:
                    results = list(col.collocate_filesets([fa, fb], **kw))
                    got, spans = harvest(results, in_memory=True)
                elif conf.get("via") == "search":
                    # Collocations.search: the documented front end (takes "your own collocator"; this one only records
                    # the names the real generator yields, which search() itself discards)
                    names = []
                    class Recording(Collocator):
                        def collocate_filesets(self, *a, **k):
                            for name in super().collocate_filesets(*a, **k):
                                names.append(name)
                                yield name
                    out.search([fa, fb], collocator=Recording(), **kw)
                    datasets = [out.read(n) for n in sorted(set(names))]
                    got, held = harvest(datasets)
                    spans = [os.path.basename(n) for n in names]
                    name_check(out, names, held)
                else:
                    names = list(col.collocate_filesets([fa, fb], output=out, **kw))
                    datasets = [out.read(n) for n in sorted(set(names))]
                    got, held = harvest(datasets)
                    spans = [os.path.basename(n) for n in names]
                    name_check(out, names, held)
            except NoFilesError:
                # FileSet.find's documented way of saying "this fileset has no file in the period": accepted as
                # "nothing to report" -- judged only against a non-empty expectation
                got, spans, nofiles = [], [], True
        exp = sorted([a, b] for a, b, _, _ in E)
        misnamed = [] if nofiles else list(getattr(harvest, "misnamed", []))
        harvest.misnamed = []
        if misnamed:
            return {"got": sorted(got), "expected": exp, "events": world.log if world else [], "spans": spans, "misnamed": misnamed}
        if nofiles and bad is None:
            return {"got": [], "expected": exp, "events": world.log if world else [], "spans": [], "nofiles": True}
        if bad is not None:
            side = bad[0]
            must = [p for p in exp if (p[0] if side == "a" else p[1]) not in removed]
            return {"got": sorted(got), "expected": exp, "must": must, "events": world.log if world else [], "spans": spans}
        return {"got": sorted(got), "expected": exp, "events": world.log if world else [], "spans": spans}
    finally:
        CM.Process, CM.Queue = saved
        shutil.rmtree(root, ignore_errors=True)


def judge(col, case, row, conf, res, label):
    rep = {"abstract": {"N": N, "P": case["P"], "S": case["S"], "I": row[0], "k": row[1], "ws": row[2], "we": row[3]},
           "concrete": conf, "expected": res["expected"], "observed": res["got"]}
    got, exp = res["got"], res["expected"]
    if res.get("misnamed"):
        col.violation("%s-output-not-named-by-the-span-it-holds-%s" % (label, conf["bundle"] or "nobundle"),
                      dict(rep, misnamed=res["misnamed"][:5]))
        return
    if res.get("nofiles"):
        if exp:
            col.violation(label + "-NoFilesError-although-collocations-exist", rep)
        else:
            col.bump("runs_ending_in_NoFilesError_with_nothing_to_report")
        return
    if "must" in res:
        # skip_file_errors: nothing invented, nothing duplicated, everything not involving the bad file is there
        ok = all(p in exp for p in got) and len(set(map(tuple, got))) == len(got) and all(p in got for p in res["must"])
        if not ok:
            col.violation(label + "-unreadable-file-removes-too-much-or-invents", dict(rep, must_remain=res["must"]))
        return
    if got != exp:
        dup = len(set(map(tuple, got))) != len(got)
        if conf["output"] == "fileset" and len(set(res["spans"])) < len(res["spans"]):
            col.violation("same-span-outputs-overwrite", dict(rep, output_names=res["spans"]))
            return
        kind = "duplicates" if dup else "lost" if all(p in exp for p in got) else "wrong-pairs"
        col.violation("%s-collocations-%s-%s" % (label, kind, conf["bundle"] or "nobundle"), rep)


def configs(n, tier):
    splits = list(SPLITS)
    out = []
    base = {"embedding": list(EMB)[n % 3], "T": 5, "split_a": splits[n % 4], "split_b": splits[(n // 2 + 1) % 4],
            "K": 1 + n % 3, "bundle": [None, "primary", "daily"][n % 3], "output": "memory" if n % 4 else "fileset"}
    if base["output"] == "fileset" and n % 8 == 0:
        base["via"] = "search"
    if n % 5 == 2 or n % 7 == 3:
        base["layout"] = "daydirs"
    out.append(base)
    if tier != "quick":
        out.append(dict(base, split_a=splits[(n + 2) % 4], split_b=splits[(n + 3) % 4], K=1 + (n + 1) % 3,
                        bundle=[None, "primary", "daily"][(n + 1) % 3], output="fileset" if n % 4 else "memory"))
    return out


def real_case(col, item):
    case, n, tier = item
    rows = [r for r in case["rows"] if r[0] >= 1]
    rows = sorted(rows, key=lambda r: (len(r[4]) == 0, (r[0] + r[1] * 3 + r[2] + n) % 7))[:2 if tier == "quick" else 4]
    for m, row in enumerate(rows):
        for conf in configs(n + m, tier):
            try:
                res = one_run(case, row, conf)
            except Exception as ex:
                nm = "no-file-matches" if "array split does not result in an equal division" in str(ex) or "number sections must be larger" in str(ex) else ""
                col.violation("collocate_filesets-raises-" + type(ex).__name__ + ("-" + nm if nm else ""),
                              {"abstract": {"P": case["P"], "S": case["S"], "row": row[:4]}, "concrete": conf, "observed": repr(ex)[:300]})
                continue
            col.count(1)
            judge(col, case, row, conf, res, "real-processes")
            if conf.get("via") == "search" and res["expected"]:
                col.bump("nontrivial_runs_through_Collocations_search")
            if res["expected"]:
                col.nontrivial.add((json.dumps(case["P"]), json.dumps(case["S"]), json.dumps(row[:4]), json.dumps(conf, sort_keys=True)))
    # one run with an unreadable file
    row = rows[0]
    conf = dict(configs(n, "quick")[0], unreadable=("a" if n % 2 else "b", n), output="memory")
    try:
        res = one_run(case, row, conf)
        col.count(1)
        judge(col, case, row, conf, res, "real-processes")
    except Exception as ex:
        col.violation("collocate_filesets-raises-" + type(ex).__name__ + "-with-unreadable-file",
                      {"abstract": {"P": case["P"], "S": case["S"], "row": row[:4]}, "concrete": conf, "observed": repr(ex)[:300]})


def special_cases(col, _):
    """Two scenario classes named in DESIGN.md: no temporal match between existing files, and two results that
    share the time span of their primary points (output files are named by that span)."""
    # (1) files on both sides, but nothing matches in time: nothing must be yielded, nothing raised
    case = {"P": [[0, 1]], "S": [[4, 1]]}
    row = [1, 1, 0, 4, []]
    for K in (1, 2):
        conf = {"embedding": "equator", "T": 5, "split_a": "per-tick", "split_b": "per-tick", "K": K, "bundle": None, "output": "memory"}
        try:
            res = one_run(case, row, conf)
            col.count(1)
            judge(col, case, row, conf, res, "real-processes")
        except Exception as ex:
            col.violation("collocate_filesets-raises-" + type(ex).__name__ + "-no-file-matches",
                          {"abstract": {"P": case["P"], "S": case["S"], "row": row[:4]}, "concrete": conf, "observed": repr(ex)[:300]})
    # (2) one primary point collocates with points of two secondary files: two results with the same span
    case = {"P": [[1, 0]], "S": [[1, 0], [2, 0]]}
    row = [2, 0, 0, 4, [[1, 1, 0, 0], [1, 2, 1, 0]]]
    for out in ("memory", "fileset"):
        conf = {"embedding": "equator", "T": 5, "split_a": "per-tick", "split_b": "per-tick", "K": 1, "bundle": None, "output": out}
        try:
            res = one_run(case, row, conf)
            col.count(1)
            judge(col, case, row, conf, res, "real-processes")
            col.nontrivial.add(("same-span", out))
        except Exception as ex:
            col.violation("collocate_filesets-raises-" + type(ex).__name__,
                          {"abstract": {"P": case["P"], "S": case["S"], "row": row[:4]}, "concrete": conf, "observed": repr(ex)[:300]})


def fake_case(col, item):
    """Thread-backed fake processes and a fake queue with randomised feeder / poll timing: many interleavings
    of the result queue per scenario; the put/get log is kept for TLC."""
    case, n, seeds = item
    rows = [r for r in case["rows"] if r[0] >= 1 and r[4]]
    if not rows:
        return
    rows = sorted(rows, key=lambda r: -len(r[4]))
    row = rows[n % min(2, len(rows))]                 # prefer rows with many expected collocations
    for seed in seeds:
        conf = dict(configs(n + seed, "quick")[0], output="memory", K=1 + seed % 3,
                    split_a=["per-tick", "pairs", "per-tick", "single"][seed % 4])
        try:
            res = one_run(case, row, conf, fakes=True, seed=seed)
        except Exception as ex:
            col.violation("collocate_filesets-raises-" + type(ex).__name__ + "-fake-processes",
                          {"abstract": {"P": case["P"], "S": case["S"], "row": row[:4]}, "concrete": conf, "observed": repr(ex)[:300]})
            continue
        col.count(1)
        judge(col, case, row, conf, res, "fake-processes")
        if res["expected"]:
            col.nontrivial.add(("fake", json.dumps(case["P"]), json.dumps(case["S"]), json.dumps(row[:4]), seed))
        col.extra.setdefault("_traces", []).append({"ev": res["events"], "expected": res["expected"], "got": res["got"],
                                                    "abstract": {"P": case["P"], "S": case["S"], "row": row[:4]}, "concrete": conf})


def run(ctx):
    quick = ctx.tier == "quick"
    ctx.rule = ("ResultQueueDesign.tla (children with local buffers, feeder, pipe, bounded semaphore, crash marker; parent "
                "polling is_alive / draining) is model-checked for conservation, no duplicates, per-child FIFO and "
                "termination; TLC-generated point scenarios (CollocCases) are split into files in four ways and run through "
                "collocate_filesets with real worker processes (1-3), bundle None/primary/daily, memory and fileset output "
                "and one unreadable file; with thread-backed fake processes and a fake queue with randomised feeder/poll "
                "timing the put/get logs are validated by PipelineTrace.tla. Non-trivial: runs whose expected bag is not "
                "empty.")
    d = ctx.tlc_dir("colloc")
    for K, R, nones, crash in ((2, 2, "{<<1, 2>>}", "{2}"), (3, 2, "{<<2, 1>>}", "{}")) if quick else \
            ((2, 2, "{<<1, 2>>}", "{2}"), (3, 2, "{<<2, 1>>}", "{}"), (3, 3, "{<<1, 1>>, <<3, 2>>}", "{3}")):
        with open(os.path.join(d, "MCQueue.tla"), "w") as f:
            f.write("---- MODULE MCQueue ----\nEXTENDS ResultQueueDesign\nmcNones == %s\nmcCrashers == %s\n====\n" % (nones, crash))
        with open(os.path.join(d, "MCQueue.cfg"), "w") as f:
            f.write("CONSTANTS K = %d R = %d\nNones <- mcNones\nCrashers <- mcCrashers\nSPECIFICATION FairSpec\nINVARIANT NoDup\n"
                    "INVARIANT OnlyProduced\nINVARIANT Conservation\nINVARIANT SemBound\nINVARIANT ChildFifo\nPROPERTY Terminates\n"
                    "PROPERTY RefinesInd\n" % (K, R))
        res = ctx.tlc(d, "MCQueue", "MCQueue.cfg", workers=16, coverage=True, timeout=2400)
        cov = res.coverage()
        never = [a for a in ("PollAlive", "Get", "EndDrain") if cov.get(a, (0, 0))[1] == 0]
        if never:
            raise MachineryError("ResultQueueDesign actions never taken: %s" % never)
    # unbounded part: conservation of items / semaphore accounting / "a child that is gone has flushed" of the set-based
    # ResultQueueInd (which ResultQueueDesign refines, PROPERTY RefinesInd) is inductive for ALL K, R up to the bound, every
    # set of None results and every set of crashing children (symbolic constants, Apalache); negative control: a child
    # that exits without joining its feeder thread
    from vlib import apalache
    bounds = {"MaxK == 4": "MaxK == 3", "MaxR == 4": "MaxR == 2"} if quick else {}
    apalache.inductive(ctx, d, "ResultQueueInd", cinit="ConstInit", goals=("Conservation", "OnlyProduced"), subst=bounds,
                       negative={"/\\ c \\in alive /\\ Finished(c) /\\ BufferOf(c) = {}": "/\\ c \\in alive /\\ Finished(c)",
                                 **({} if quick else {"MaxK == 4": "MaxK == 3", "MaxR == 4": "MaxR == 2"})})
    cases = c04.gen_cases(ctx, 5, 3, 6 if quick else 14, ctx.seed + 5, ks="{0,1,2}")
    cases = [c for c in cases if any(r[0] >= 1 and r[4] for r in c["rows"])]
    real = cases[:10] if quick else cases[:120]
    pmap(ctx, real_case, [(c, n, ctx.tier) for n, c in enumerate(real)], procs=1)      # real child processes: run from the main process
    pmap(ctx, special_cases, [0], procs=1)
    from vlib.par import Collector, merge
    col = Collector()
    for n, c in enumerate(cases[:24] if quick else cases[:150]):
        fake_case(col, (c, n, list(range(5 if quick else 8))))
    traces = col.extra.pop("_traces", [])
    merge(ctx, col)
    tdir = ctx.tmpdir()
    path = os.path.join(tdir, "pipeline.ndjson")
    with open(path, "w") as f:
        for tid, t in enumerate(traces, 1):
            f.write(json.dumps({"tid": tid, "ev": t["ev"], "expected": t["expected"], "got": t["got"]}) + "\n")
    if traces:
        res = ctx.tlc(d, "PipelineTrace", "PipelineTrace.cfg", workers=1, env={"TRACE_FILE": path}, timeout=1500)
        acc = {x[0] for x in res.tuples("ACCEPT")}
        rej = {x[0]: x[1] for x in res.tuples("REJECT")}
        if len(acc) + len(rej) != len(traces):
            raise MachineryError("pipeline trace verdicts not total")
        ctx.traces += len(acc)
        for tid, clause in sorted(rej.items()):
            t = traces[tid - 1]
            ctx.violation("trace-violates-" + clause, {"abstract": t["abstract"], "concrete": t["concrete"],
                                                       "observed": {"events": t["ev"], "got": t["got"]}, "expected": t["expected"],
                                                       "tlc": {"module": "PipelineTrace", "failing_clause": clause}})
        ctx.sample({"scenario": traces[0]["abstract"], "queue_log": traces[0]["ev"][:12], "pairs": traces[0]["got"]})
    ctx.traces += len(real)
