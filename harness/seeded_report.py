#!/venv/bin/python
"""Prints the DESIGN.md section 14 table from /verif/seeded/*/meta.json."""
import glob
import json
import os

VERIF = os.path.dirname(os.path.dirname(os.path.abspath(__file__)))
rows = []
for d in sorted(glob.glob(os.path.join(VERIF, "seeded", "*"))):
    m = json.load(open(os.path.join(d, "meta.json")))
    e = m.get("evaluation_by_main_session", {})
    name = os.path.basename(d)
    det = e.get("detected_by", [])
    fps = []
    for c in det:
        fps += ["%s: %s" % (c, ", ".join(e["checks"][c]["fingerprints"][:2]))]
    rows.append("| %s | %s | %s | %s | %s |" % (
        name, (m.get("summary") or "").replace("|", "/").replace("\n", " ")[:230],
        (m.get("needs") or "").replace("|", "/").replace("\n", " ")[:200],
        "yes" if e.get("confirmed") else "NO",
        "; ".join(fps) if fps else "**missed**"))
print("| seed | change (sub-agent's summary, shortened) | needs | confirmed by me | caught by (quick tier) |")
print("|------|------|------|------|------|")
print("\n".join(rows))
