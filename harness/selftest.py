#!/venv/bin/python
"""Self-test: apply each catalogued source mutant to a scratch COPY of /repo (under the system temp dir,
removed afterwards), run the property's quick check against the copy (VERIF_REPO), expect exit 1.
Usage: selftest.py [Cnn ...] [-k substr] [-j jobs]"""
import os
import subprocess
import sys

VERIF = os.path.dirname(os.path.dirname(os.path.abspath(__file__)))
REPO = "/repo"

# (property, label, file, old, new)
MUTANTS = [
    ("C03", "column-sort", "typhon/trees.py", 'indexed_intervals[order]', 'np.sort(indexed_intervals, axis=0)'),
    ("C03", "any-empty", "typhon/trees.py", 'if intervals.shape[0] == 0:', 'if not intervals.any():'),
    # (`<=` -> `<` on either descent condition is an EQUIVALENT mutant: the left subtree only holds intervals ending before the centre)
    ("C03", "left-descent-wrong-end", "typhon/trees.py", 'if query_interval[0] <= node.center_point and node.left', 'if query_interval[1] <= node.center_point and node.left'),
    ("C03", "overlap-strict", "typhon/trees.py", 'return interval1[0] <= interval2[1] and interval1[1] >= interval2[0]', 'return interval1[0] < interval2[1] and interval1[1] >= interval2[0]'),
    ("C03", "point-right", "typhon/trees.py", 'intervals.extend(self._query_point(point, node.right))', 'pass'),
    ("C01", "no-lookback", "typhon/files/fileset.py", 'dir_start = start - self._sub_dir_time_resolution', 'dir_start = start'),
    ("C01", "no-minus-1us", "typhon/files/fileset.py", '        end -= timedelta(microseconds=1)\n\n        if end < start:', '        if end < start:'),
    ("C01", "blacklist-ignored", "typhon/files/fileset.py", '            if forbidden.match(value):\n                return False', '            if forbidden.match(value):\n                return True'),
    ("C01", "sort-key-start-only", "typhon/files/fileset.py", 'file_iterator, key=lambda x: (x.times[0], x.times[1])', 'file_iterator, key=lambda x: (x.times[0], )'),
    ("C01", "bundle-off-by-one", "typhon/files/fileset.py", 'files[i:i + bundle_size]\n', 'files[i:i + bundle_size - 1]\n'),
    ("C01", "exclude-names-ignored", "typhon/files/fileset.py", '        if file.path in self._exclude_files:\n            return True', '        if file.path in self._exclude_files:\n            return False'),
    ("C01", "nontemporal-level-checked", "typhon/files/fileset.py", "                if not is_temporal\n                or self._check_placeholders(attr, start_check, end_check)", "                if self._check_placeholders(attr, start_check, end_check)"),
    ("C01", "year-fallback-strict", "typhon/files/fileset.py", 'return year >= start.year and attr_end["year"] <= end.year', 'return year > start.year and attr_end["year"] <= end.year'),
    ("C03", "match-one-sided", "typhon/files/fileset.py", "            times2[:, 1] += int(max_interval.total_seconds())\n", ""),
    ("C03", "match-unsorted-partners", "typhon/files/fileset.py", "matches = [files2[oi] for oi in sorted(overlapping_files)]", "matches = [files2[oi] for oi in sorted(overlapping_files, reverse=True)]"),
    ("C16", "argmin-start-only", "typhon/files/fileset.py", "intervals = np.min(np.abs(np.asarray(times) - timestamp), axis=1)", "intervals = np.abs(np.asarray(times) - timestamp)[:, 0]"),
    ("C16", "one-sided-window", "typhon/files/fileset.py", "            end = timestamp + self._sub_dir_time_resolution", "            end = timestamp + timedelta(microseconds=1)"),
    # (a strict covering test is an EQUIVALENT mutant: a file touching t has distance 0 and wins the argmin)
    ("C16", "covering-start-only", "typhon/files/fileset.py", "if IntervalTree.interval_contains(time_coverage, timestamp):", "if time_coverage[0] <= timestamp:"),
    ("C16", "filters-dropped", "typhon/files/fileset.py", "files = list(self.find(start, end, sort=False, filters=filters))", "files = list(self.find(start, end, sort=False))"),
    ("C16", "shortcut-excluded", "typhon/files/fileset.py", "                if not self.is_excluded(file_info):\n                    return file_info", "                return file_info"),
    ("C02", "doy-off-by-one", "typhon/files/fileset.py", "(start_time - datetime(start_time.year, 1, 1)).days\n                    + 1),", "(start_time - datetime(start_time.year, 1, 1)).days\n                    + 0),"),
    ("C02", "doy-parse-off", "typhon/files/fileset.py", "date = datetime(args[\"year\"], 1, 1) + timedelta(doy - 1)", "date = datetime(args[\"year\"], 1, 1) + timedelta(doy)"),
    ("C02", "year2-threshold", "typhon/files/fileset.py", "    year2_threshold = 65", "    year2_threshold = 50"),
    ("C02", "no-rollover", "typhon/files/fileset.py", "            if end_date < start_date:\n                end_date += self._end_time_superior", "            if False:\n                end_date += self._end_time_superior"),
    ("C02", "rollover-le", "typhon/files/fileset.py", "            if end_date < start_date:\n                end_date += self._end_time_superior", "            if end_date <= start_date:\n                end_date += self._end_time_superior"),
    ("C02", "ms-round", "typhon/files/fileset.py", "                millisecond=\"{:03d}\".format(\n                    int(start_time.microsecond / 1000)),", "                millisecond=\"{:03d}\".format(\n                    round(start_time.microsecond / 1000)),"),
    ("C02", "dot-unescaped", "typhon/files/fileset.py", '.replace(".", r"\\.")', ''),
    ("C02", "no-end-anchor", "typhon/files/fileset.py", 'regex_string = "^" + path.format(**placeholder) + "$"', 'regex_string = "^" + path.format(**placeholder)'),
    ("C02", "handler-none-overwrites", "typhon/files/handlers/common.py", "if other_info.times[1] is not None or not ignore_none_time:", "if True:"),
    ("C02", "superior-wrong-unit", "typhon/files/fileset.py", "superior_resolution = resolutions[highest_resolution_index - 1]", "superior_resolution = resolutions[highest_resolution_index]"),
    ("C06", "cm-factor", "typhon/geographical.py", '    [{"cm", "centimeter", "centimeters"}, 1e-5],', '    [{"cm", "centimeter", "centimeters"}, 1e-6],'),
    ("C06", "yds-as-feet", "typhon/geographical.py", '    [{"yd", "yds", "yard", "yards"}, 0.9144e-3],\n    [{"ft", "foot", "feet"}, 0.3048e-3],', '    [{"yd", "yard", "yards"}, 0.9144e-3],\n    [{"ft", "foot", "feet", "yds"}, 0.3048e-3],'),
    ("C06", "perm-wrong-way", "typhon/geographical.py", "            pairs[0, :] = self.shuffler[pairs[0, :]]\n\n            return pairs, distances", "            pairs[0, :] = np.argsort(self.shuffler)[pairs[0, :]]\n\n            return pairs, distances"),
    # equivalent w.r.t. the property (thresholds sit mid-gap by design): ("C06", "km-factor", "typhon/geographical.py", "        if self.metric == \"minkowski\":\n            r *= 1000.", "        if self.metric == \"minkowski\":\n            r *= 1000.0001"),
    ("C06", "miles-factor", "typhon/geographical.py", '[{"mi", "mile", "miles"}, 1.609344]', '[{"mi", "mile", "miles"}, 1.852]'),
    ("C06", "any-empty", "typhon/geographical.py", "        if pairs.size == 0:\n            return pairs, pairs", "        if not pairs.any():\n            return pairs, pairs"),
    ("C06", "haversine-radians", "typhon/geographical.py", "            distances *= earth_radius\n", "            pass\n"),
    ("C06", "haversine-radius", "typhon/geographical.py", "            r *= 1000. / earth_radius", "            r *= 1. / earth_radius"),
    ("C06", "nodist-unshuffled", "typhon/geographical.py", "            if pairs.size and self.shuffler is not None:", "            if False:"),
    ("C04", "number-threshold-truncated", "typhon/utils/timeutils.py", "        return timedelta(**{numbers_as: float(obj)})", "        return timedelta(**{numbers_as: int(obj)})"),
    ("C04", "window-ignored-without-max-interval", "typhon/collocations/collocator.py", "        if max_interval is not None \\\n                or start > datetime.min or end < datetime.max:", "        if max_interval is not None:"),
    ("C04", "interval-le", "typhon/collocations/collocator.py", "passed_time_check = intervals < max_interval", "passed_time_check = intervals <= max_interval"),
    ("C04", "window-one-sided", "typhon/collocations/collocator.py", "            & (primary.time.values <= np.datetime64(common_end))", "            & (primary.time.values <= np.datetime64(datetime.max))"),
    ("C04", "nan-translation-dropped", "typhon/collocations/collocator.py", "            self._to_original(\n                pairs[:, passed_temporal_check], original_indices),", "            pairs[:, passed_temporal_check].astype(int),"),
    ("C04", "row-swap-omitted", "typhon/collocations/collocator.py", "        if not index_with_primary:\n            # The primary indices should be in the first row, the secondary\n            # indices in the second:\n            pairs[[0, 1]] = pairs[[1, 0]]", "        if False:\n            pairs[[0, 1]] = pairs[[1, 0]]"),
    ("C04", "bin-offset-wrong-dataset", "typhon/collocations/collocator.py", "offset2 = secondary.index.searchsorted(chunk2_start)", "offset2 = primary.index.searchsorted(chunk2_start)"),
    ("C04", "bin-swap-omitted", "typhon/collocations/collocator.py", "        if swapped_datasets:\n            # Swap the rows of the results\n            pairs[[0, 1]] = pairs[[1, 0]]", "        if False:\n            pairs[[0, 1]] = pairs[[1, 0]]"),
    ("C04", "bin-secondary-window", "typhon/collocations/collocator.py", "chunk2_end = chunk1.index.max() + max_interval", "chunk2_end = chunk1.index.max()"),
    ("C04", "any-empty", "typhon/collocations/collocator.py", "        if not original_pairs.size:", "        if not original_pairs.any():"),
    ("C04", "allclose-cache", "typhon/collocations/collocator.py", "            return np.array_equal(lat, self.index.lat) \\\n                   & np.array_equal(lon, self.index.lon)", "            return np.allclose(lat, self.index.lat) \\\n                   & np.allclose(lon, self.index.lon)"),
    ("C04", "common-end-minus", "typhon/collocations/collocator.py", "pd.Timestamp(secondary.time.values.max().item(0)).tz_localize(None) + max_interval", "pd.Timestamp(secondary.time.values.max().item(0)).tz_localize(None) - max_interval"),
    ("C13", "bin-matrix-swapped", "typhon/collocations/common.py", "        binned_data[rows_in_bins, primary_indices] \\\n            = var_data.isel(collocation=secondary_indices).values", "        binned_data[rows_in_bins, primary_indices] \\\n            = var_data.isel(collocation=primary_indices).values"),
    ("C13", "reference-inverted", "typhon/collocations/common.py", "reference_index = groups[0] != reference", "reference_index = groups[0] == reference"),
    ("C13", "nanmean-to-mean", "typhon/collocations/common.py", '"mean": lambda m, a: np.nanmean(m, axis=a),', '"mean": lambda m, a: np.mean(m, axis=a),'),
    ("C13", "concat-offset-after", "typhon/collocations/collocator.py", "                data[\"Collocations/pairs\"][1, :] += secondary_size", "                data[\"Collocations/pairs\"][1, :] += secondary_size + 1"),
    ("C13", "concat-offset-primary-for-both", "typhon/collocations/collocator.py", "                data[\"Collocations/pairs\"][1, :] += secondary_size", "                data[\"Collocations/pairs\"][1, :] += primary_size"),
    ("C13", "expand-wrong-row", "typhon/collocations/common.py", '        **{groups[1] + "/collocation": pairs[1]}', '        **{groups[1] + "/collocation": pairs[0]}'),
    ("C13", "rows-restart", "typhon/collocations/common.py", "        current_row[p] += 1", "        current_row[p] = 1"),
    ("C13", "concat-mutates-input", "typhon/collocations/collocator.py", "                data = data.copy(deep=True)\n", ""),
    ("C12", "compress-on-exception", "typhon/files/utils.py", "        yield tfile\n        compress_as(tfile, fmt, filename, keep=True)", "        try:\n            yield tfile\n        finally:\n            compress_as(tfile, fmt, filename, keep=True)"),
    ("C12", "no-unlink", "typhon/files/utils.py", "    finally:\n        os.unlink(tmpfile.name)", "    finally:\n        pass"),
    ("C12", "unlink-only-on-success", "typhon/files/utils.py", "        yield tmpfile.name\n    finally:\n        os.unlink(tmpfile.name)", "        yield tmpfile.name\n        os.unlink(tmpfile.name)\n    finally:\n        pass"),
    ("C12", "mkdtemp-leak", "typhon/files/utils.py", "    with tempfile.TemporaryDirectory(dir=tmpdir) as tdir:\n        tfile", "    if True:\n        tdir = tempfile.mkdtemp(dir=tmpdir)\n        tfile"),
    ("C12", "xz-key", "typhon/files/utils.py", "    _known_compressions['xz'] = lzma.LZMAFile", "    _known_compressions['.xz'] = lzma.LZMAFile"),
    ("C12", "bz2-as-plain-copy", "typhon/files/utils.py", "                elif fmt == \"bz2\" or fmt == \"xz\":\n                    with compfile(target, 'wb') as f_out:", "                elif fmt == \"bz2\" or fmt == \"xz\":\n                    with open(target, 'wb') as f_out:"),
    ("C12", "swallow-compress-error", "typhon/files/utils.py", "    except Exception as e:\n        raise e\n    else:\n        if not keep:", "    except Exception as e:\n        pass\n    else:\n        if not keep:"),
    ("C15", "empty-cache-not-saved", "typhon/files/fileset.py", "        if filename is not None:\n            # First write all to a backup file.", "        if filename is not None and self.info_cache:\n            # First write all to a backup file."),
    ("C15", "write-directly", "typhon/files/fileset.py", ["            with open(filename+\".backup\", 'w') as file:", "            shutil.move(filename+\".backup\", filename)"], ["            with open(filename, 'w') as file:", "            pass"]),
    ("C15", "drop-microseconds", "typhon/files/handlers/common.py", 'time.strftime("-%m-%dT%H:%M:%S.%f")', 'time.strftime("-%m-%dT%H:%M:%S.000000")'),
    ("C15", "load-reraises", "typhon/files/fileset.py", "            except Exception as err:\n                warnings.warn(\n                    \"Could not load the file information from cache file \"", "            except ValueError as err:\n                warnings.warn(\n                    \"Could not load the file information from cache file \""),
    ("C15", "year-unpadded", "typhon/files/handlers/common.py", 'f"{time.year:04d}"', 'f"{time.year:d}"'),
    ("C15", "attr-not-saved", "typhon/files/handlers/common.py", '            "attr": self.attr,\n        }', '            "attr": {},\n        }'),
    ("C15", "end-time-as-start", "typhon/files/handlers/common.py", "        return cls(json_dict[\"path\"], times, json_dict[\"attr\"])", "        return cls(json_dict[\"path\"], [times[0], times[0]], json_dict[\"attr\"])"),
    ("C15", "silent-on-corrupt", "typhon/files/fileset.py", "            except Exception as err:\n                warnings.warn(", "            except Exception as err:\n                (lambda *a: None)("),
    ("C15", "partial-update-before-error", "typhon/files/fileset.py", "                    info_cache = {\n                        json_dict[\"path\"]: FileInfo.from_json_dict(json_dict)\n                        for json_dict in json_info_cache\n                    }\n                    self.info_cache.update(info_cache)", "                    for json_dict in json_info_cache:\n                        self.info_cache[json_dict[\"path\"]] = FileInfo.from_json_dict(json_dict)"),
    ("C10", "pop-not-popleft", "typhon/files/fileset.py", "                if wait:\n                    yield worker_queue.popleft().result()", "                if wait:\n                    yield worker_queue.pop().result()"),
    ("C10", "window-gt", "typhon/files/fileset.py", "                wait = len(worker_queue) >= workers", "                wait = len(worker_queue) > workers"),
    ("C10", "no-tail-flush", "typhon/files/fileset.py", "            # Flush the rest:\n            while worker_queue:\n                yield worker_queue.popleft().result()", "            # Flush the rest:\n            while len(worker_queue) > 1:\n                yield worker_queue.popleft().result()"),
    ("C10", "swallow-task-exception", "typhon/files/fileset.py", "        # Call the function:\n        return_value = func(*args, **kwargs)", "        # Call the function:\n        try:\n            return_value = func(*args, **kwargs)\n        except Exception:\n            return_value = None"),
    ("C10", "as-completed", "typhon/files/fileset.py", "            return list(pool.map(\n                self._call_map_function, worker_args,\n            ))", "            from concurrent.futures import as_completed\n            return [f.result() for f in as_completed([pool.submit(self._call_map_function, a) for a in worker_args])]"),
    ("C10", "align-evict-early", "typhon/files/fileset.py", "                if not secondary_usage[secondary_file]:\n                    del cache[secondary_file]", "                if secondary_usage[secondary_file] <= 1:\n                    cache.pop(secondary_file, None)"),
    ("C10", "e2w-always", "typhon/files/fileset.py", "            except Exception as e:\n                if error_to_warning:\n                    msg = f\"[ERROR] Could not read the file(s):", "            except Exception as e:\n                if True:\n                    msg = f\"[ERROR] Could not read the file(s):"),
    ("C10", "collect-keeps-none-drops-order", "typhon/files/fileset.py", "        results = self.map(**map_args)\n\n        # Tell the python interpreter explicitly to free up memory to improve\n        # performance (see https://stackoverflow.com/q/1316767/9144990):\n        gc.collect()", "        results = self.map(**map_args)[::-1]\n\n        gc.collect()"),
    ("C11", "renamed-zip-unreadable", "typhon/files/utils.py", "        if filebase not in members and len(members) == 1:\n            filebase = members[0]\n", "        pass\n"),
    ("C11", "bound-reader-loses-read-args", "typhon/files/handlers/common.py", "            number_args = 1\n            if len(signature(self.reader).parameters) > number_args:", "            number_args = 1 + int(ismethod(self.reader))\n            if len(signature(self.reader).parameters) > number_args:"),
    ("C11", "write-args-not-merged", "typhon/files/fileset.py", "        write_args = {**self.write_args, **write_args}", "        write_args = {**write_args}"),
    ("C11", "target-times-reversed", "typhon/files/fileset.py", "        new_filename = destination.get_filename(\n            file_info.times, fill=file_info.attr\n        )\n\n        # Shall we simply move", "        new_filename = destination.get_filename(\n            (file_info.times[0], file_info.times[0]), fill=file_info.attr\n        )\n\n        # Shall we simply move"),
    ("C11", "remove-on-copy", "typhon/files/fileset.py", "            if not copy:\n                os.remove(file_info.path)", "            if True:\n                os.remove(file_info.path)"),
    ("C11", "copy-instead-of-move", "typhon/files/fileset.py", "            if copy:\n                fileset.file_system.copy(file_info.path, new_filename)\n            else:\n                fileset.file_system.move(file_info.path, new_filename)", "            fileset.file_system.copy(file_info.path, new_filename)"),
    ("C11", "dry-run-deletes", "typhon/files/fileset.py", "        if dry_run:\n            self.map(FileSet._dry_delete, **kwargs)", "        if dry_run:\n            self.map(FileSet._delete_single_file, **kwargs)"),
    ("C11", "delete-ignores-selection", "typhon/files/fileset.py", "            self.map(\n                FileSet._delete_single_file, **kwargs\n            )", "            self.map(\n                FileSet._delete_single_file\n            )"),
    ("C11", "setitem-end-is-start", "typhon/files/fileset.py", "            start = time_args.start\n            end = time_args.stop", "            start = time_args.start\n            end = time_args.start"),
    ("C11", "no-compress-on-write", "typhon/files/fileset.py", "        if self.compress:\n            with typhon.files.compress(file_info.path, tmpdir=self.temp_dir) \\\n                    as compressed_path:", "        if False:\n            with typhon.files.compress(file_info.path, tmpdir=self.temp_dir) \\\n                    as compressed_path:"),
    ("C11", "move-self-call", "typhon/files/fileset.py", "    @staticmethod\n    def _move_single_file(\n            file_info, fileset, destination, convert, copy):", "    def _move_single_file(self,\n            file_info, fileset, destination, convert, copy):"),
    ("C19", "tau-swapped", "typhon/retrieval/scores.py", "    return np.where(y_tau < y_test, abs_1, abs_2)", "    return np.where(y_tau < y_test, abs_2, abs_1)"),
    ("C19", "bias-parentheses", "typhon/retrieval/scores.py", "np.mean(100.0 * (y_pred - y_test) / y_test)", "np.mean(100.0 * y_test - y_pred / y_test)"),
    ("C19", "mape-no-abs", "typhon/retrieval/scores.py", "100.0 * np.abs(y_test.ravel() - y_pred.ravel())", "100.0 * (y_test.ravel() - y_pred.ravel())"),
    ("C19", "mape-truth-not-flattened", "typhon/retrieval/scores.py", "100.0 * np.abs(y_test.ravel() - y_pred.ravel())", "100.0 * np.abs(y_test - y_pred.ravel())"),
    ("C19", "le-instead-of-lt", "typhon/retrieval/scores.py", "    abs_2 = (1.0 - taus) * np.abs(y_tau - y_test)", "    abs_2 = (1.0 - taus) * np.abs(y_tau - y_test) + (y_tau == y_test) * 1.0"),
    ("C19", "shape-error-swallowed", "typhon/retrieval/scores.py", "        raise ValueError(\n            \"Shape of y_test is incompatible with y_tau and taus.\")", "        y_test = y_test.ravel()[:n].reshape(n, 1)"),
    ("C19", "mean-over-wrong-axis", "typhon/retrieval/scores.py", "np.nanmean(quantile_score(y_tau, y_test, taus), axis=0)", "np.nanmean(quantile_score(y_tau, y_test, taus), axis=-1)"),
    ("C14", "p2h-abs-layer-depth", "typhon/physics/atmosphere.py", "    layer_depth = np.diff(p)", "    layer_depth = -np.abs(np.diff(p))"),
    ("C14", "isa-clamped-beyond-table", "typhon/physics/atmosphere.py", "    return interp1d(z_ref, temp + constants.K, fill_value='extrapolate')(z)", "    return np.interp(z, z_ref[::1] if z_ref[0] < z_ref[-1] else z_ref[::-1], (temp + constants.K)[::1] if z_ref[0] < z_ref[-1] else (temp + constants.K)[::-1])"),
    ("C14", "isa-level-typo", "typhon/physics/atmosphere.py", "    h = np.array([-610, 11000, 20000, 32000, 47000, 51000, 71000, 84852])", "    h = np.array([-610, 11000, 20000, 32000, 47000, 52000, 71000, 84852])"),
    ("C14", "p2h-default-uses-height-addressing", "typhon/physics/atmosphere.py", "        T = standard_atmosphere(p, coordinates='pressure')", "        T = standard_atmosphere(p)"),
    ("C14", "crh-levels-from-second-dim", "typhon/physics/atmosphere.py", "            l = es.shape[axis]\n", "            l = len(es[axis])\n"),
    ("C14", "crh-pressure-against-last-axis", "typhon/physics/atmosphere.py", "        for i in range(0,l):\n            qs[i] = water_vapor_pressure2specific_humidity(es[i], p[i])\n", "        qs = water_vapor_pressure2specific_humidity(es, p)\n"),
    ("C14", "axis-ignored", "typhon/math/common.py", "    return trapezoid(y, x, axis=axis)", "    return trapezoid(y, x)"),
    ("C14", "iwv-sign", "typhon/physics/atmosphere.py", "        return -math.integrate_column(q, p, axis=axis) / g", "        return math.integrate_column(q, p, axis=axis) / g"),
    ("C14", "iwv-uses-vmr-not-q", "typhon/physics/atmosphere.py", "        return -math.integrate_column(q, p, axis=axis) / g", "        return -math.integrate_column(vmr, p, axis=axis) / g"),
    ("C14", "iwv-general-axis-dropped", "typhon/physics/atmosphere.py", "        return math.integrate_column(vmr * rho, z, axis=axis)", "        return math.integrate_column(vmr / rho, z, axis=axis)"),
    ("C14", "height-no-layer-mean", "typhon/physics/atmosphere.py", "    rho_layer = 0.5 * (rho[:-1] + rho[1:])", "    rho_layer = rho[:-1]"),
    ("C14", "height-not-from-zero", "typhon/physics/atmosphere.py", "    return np.hstack([0, z])", "    return np.hstack([z[0], z])"),
    ("C14", "crh-inverted", "typhon/physics/atmosphere.py", "        crh = ivw/ivws", "        crh = ivws/ivw"),
    ("C08", "snell-complex-typed-real-index", "typhon/physics/em.py", "        theta2 = np.arcsin(\n            np.real(n1) * np.sin(np.deg2rad(theta1)) / np.real(n2))", "        theta2 = np.arcsin(n1 * np.sin(np.deg2rad(theta1)) / n2)"),
    ("C08", "rj-int64-square", "typhon/physics/em.py", "    return 2 * f**2 * k * T / c**2", "    return 2 * np.square(f) * k * T / c**2"),
    ("C08", "no-grid-reversal", "typhon/physics/em.py", "    return perm[::-1, ...], lam_grid[::-1]", "    return perm, lam_grid"),
    ("C08", "jacobian-f-not-f2", "typhon/physics/em.py", "    perm = perhz * f_grid.reshape(shape)**2 / c", "    perm = perhz * f_grid.reshape(shape) / c"),
    ("C08", "perwn-divides", "typhon/physics/em.py", "    perwn = perhz * c", "    perwn = perhz / c"),
    ("C08", "rj-tb-missing-2", "typhon/physics/em.py", "    return np.divide(c**2, (2 * f**2 * k)) * r", "    return np.divide(c**2, (f**2 * k)) * r"),
    ("C08", "snell-indices-swapped", "typhon/physics/em.py", "        theta2 = np.arcsin(\n            np.real(n1) * np.sin(np.deg2rad(theta1)) / np.real(n2))", "        theta2 = np.arcsin(n2 * np.sin(np.deg2rad(theta1)) / n1)"),
    ("C08", "snell-array-wide-nan", "typhon/physics/em.py", "        theta2 = np.arcsin(\n            np.real(n1) * np.sin(np.deg2rad(theta1)) / np.real(n2))", "        theta2 = np.arcsin(n1 * np.sin(np.deg2rad(theta1)) / n2)\n        if np.any(np.isnan(theta2)):\n            theta2 = np.nan"),
    ("C08", "snell-clips-total-reflection", "typhon/physics/em.py", "        theta2 = np.arcsin(\n            np.real(n1) * np.sin(np.deg2rad(theta1)) / np.real(n2))", "        theta2 = np.arcsin(np.clip(n1 * np.sin(np.deg2rad(theta1)) / n2, -1, 1))"),
    ("C08", "fresnel-rv-uses-rh-weights", "typhon/physics/em.py", "    Rv = (n2 * costheta1 - n1 * costheta2) / (n2 * costheta1 + n1 * costheta2)", "    Rv = (n1 * costheta1 - n2 * costheta2) / (n2 * costheta1 + n1 * costheta2)"),
    ("C08", "fresnel-theta-in-radians", "typhon/physics/em.py", "    costheta2 = np.cos(np.deg2rad(theta2))", "    costheta2 = np.cos(theta2)"),
    ("C08", "perwn-in-place", "typhon/physics/em.py", "    perhz = perwn / c", "    perhz = np.asarray(perwn, dtype=float)\n    perhz /= c"),
    ("C08", "wavelength2wavenumber-c", "typhon/physics/em.py", "def wavelength2wavenumber(wavelength):", "def wavelength2wavenumber(wavelength, _c=constants.speed_of_light):\n    return np.divide(_c, wavelength)\ndef _unused_w2n(wavelength):"),
    ("C09", "w2q-cancellation", "typhon/physics/atmosphere.py", "    return w / (1 + w)", "    return 1 - 1 / (1 + w)"),
    ("C09", "mass-ratio-inverted", "typhon/physics/atmosphere.py", "    return x / (1 - x) * Mw / Md", "    return x / (1 - x) * Md / Mw"),
    ("C09", "blend-mask-swapped", "typhon/physics/atmosphere.py", "    e_eq[is_ice] = e_eq_ice[is_ice]\n    e_eq[is_water] = e_eq_water[is_water]", "    e_eq[is_ice] = e_eq_water[is_ice]\n    e_eq[is_water] = e_eq_ice[is_water]"),
    ("C09", "blend-offset", "typhon/physics/atmosphere.py", "            * ((T - constants.triple_point_water + 23) / 23)**2", "            * ((T - constants.triple_point_water - 23) / 23)**2"),
    ("C09", "ice-threshold-22", "typhon/physics/atmosphere.py", "    is_ice = T < (constants.triple_point_water - 23.)", "    is_ice = T < (constants.triple_point_water - 22.)"),
    ("C09", "q2x-missing-term", "typhon/physics/atmosphere.py", "    return q / ((1 - q) * Mw / Md + q)", "    return q / ((1 - q) * Mw / Md)"),
    ("C09", "rh-divides", "typhon/physics/atmosphere.py", "    return RH * e_eq(T) / p", "    return RH * p / e_eq(T)"),
    ("C09", "lapse-squared-dropped", "typhon/physics/atmosphere.py", "(1 + (Lv**2 * w_saturated) / (Cp * Rv * T**2))", "(1 + (Lv * w_saturated) / (Cp * Rv * T**2))"),
    ("C09", "zero-temperature-accepted", "typhon/physics/atmosphere.py", "    if np.any(T <= 0):\n        raise ValueError('Temperatures must be larger than 0 Kelvin.')\n\n    # Give the natural log of saturation vapor pressure over ice in Pa", "    if np.any(T < 0):\n        raise ValueError('Temperatures must be larger than 0 Kelvin.')\n\n    # Give the natural log of saturation vapor pressure over ice in Pa"),
    ("C17", "K-not-transposed", "typhon/retrieval/oem/common.py", "    return inv(K.T @ inv(S_y) @ K + inv(S_a))", "    return inv(K.T @ S_y @ K + inv(S_a))"),
    ("C17", "prior-not-inverted", "typhon/retrieval/oem/common.py", "    return inv(K.T @ inv(S_y) @ K + inv(S_a))", "    return inv(K.T @ inv(S_y) @ K + S_a)"),
    ("C17", "avk-KG", "typhon/retrieval/oem/common.py", "    return retrieval_gain_matrix(K, S_a, S_y) @ K", "    return (K @ retrieval_gain_matrix(K, S_a, S_y)) if K.shape[0] == K.shape[1] else retrieval_gain_matrix(K, S_a, S_y) @ K"),
    ("C17", "gain-missing-Sy", "typhon/retrieval/oem/common.py", "    return inv(inv(S_a) + K.T @ inv(S_y) @ K) @ K.T @ inv(S_y)", "    return inv(inv(S_a) + K.T @ inv(S_y) @ K) @ K.T"),
    ("C17", "smoothing-sign", "typhon/retrieval/oem/error.py", "    return A @ (x - x_a)", "    return A @ (x_a - x)"),
    ("C18", "window-without-rounding-slack", "typhon/retrieval/bmci/bmci.py", "        slack = 1e-12 * (1.0 + np.abs(dy).sum())", "        slack = 0.0"),
    ("C18", "inverse-ignores-correlations", "typhon/retrieval/bmci/bmci.py", "        self.s_o_inv = np.linalg.inv(self.s_o)", "        self.s_o_inv = np.diag(1.0 / np.diag(self.s_o))"),
    ("C18", "window-half-width-misparenthesised", "typhon/retrieval/bmci/bmci.py", "        s_l = y_proj - np.sqrt(2.0 * x2_max / self.pc1_e) - slack\n        s_u = y_proj + np.sqrt(2.0 * x2_max / self.pc1_e) + slack", "        s_l = y_proj - np.sqrt(2.0 * x2_max) / self.pc1_e - slack\n        s_u = y_proj + np.sqrt(2.0 * x2_max) / self.pc1_e + slack"),
    ("C18", "window-slice-from-zero", "typhon/retrieval/bmci/bmci.py", "                xs[i] = np.sum(self.x[i_l:i_u].ravel() * ws.ravel() / c)", "                xs[i] = np.sum(self.x[:i_u - i_l].ravel() * ws.ravel() / c)"),
    ("C18", "np-float-nan", "typhon/retrieval/bmci/bmci.py", "                xs[i] = float(\"nan\")", "                xs[i] = np.float(\"nan\")"),
    ("C18", "x-not-sorted-with-y", "typhon/retrieval/bmci/bmci.py", "        self.x = x[indices]", "        self.x = x"),
    ("C18", "cdf-unsorted", "typhon/retrieval/bmci/bmci.py", "        self.x_sorted_inds = np.argsort(self.x)", "        self.x_sorted_inds = np.arange(self.x.size)"),
    ("C18", "window-too-narrow", "typhon/retrieval/bmci/bmci.py", "        s_l = y_proj - np.sqrt(2.0 * x2_max / self.pc1_e)", "        s_l = y_proj + np.sqrt(2.0 * x2_max / self.pc1_e)"),
    ("C18", "std-no-weights", "typhon/retrieval/bmci/bmci.py", "                    (self.x[i_l:i_u].ravel() - xs[i]) ** 2.0 * ws.ravel() / c))", "                    (self.x[i_l:i_u].ravel() - xs[i]) ** 2.0 / max(1, i_u - i_l)))"),
    ("C20", "zip-kept-as-cache-marker", "typhon/topography.py", "        r = urllib.request.urlopen(url)\n\n        filename = os.path.join(_get_data_path(), name + \".dem.zip\")\n        path = os.path.join(filename)\n        with open(path, 'wb') as f:\n            shutil.copyfileobj(r, f)\n", "        filename = os.path.join(_get_data_path(), name + \".dem.zip\")\n        path = os.path.join(filename)\n        if not os.path.exists(path):\n            r = urllib.request.urlopen(url)\n            with open(path, 'wb') as f:\n                shutil.copyfileobj(r, f)\n"),
    ("C20", "cache-lookup-lower-case", "typhon/topography.py", "        dem_file = os.path.join(_get_data_path(), (name + \".dem\").upper())", "        dem_file = os.path.join(_get_data_path(), name + \".dem\")"),
    ("C20", "seam-row-duplicated", "typhon/topography.py", "            inds_lat = np.logical_and(lat_min <= lats, lats < lat_max)\n            inds_lon = np.logical_and(lon_min <= lons, lons < lon_max)\n            inds_s", "            inds_lat = np.logical_and(lat_min <= lats, lats <= lat_max + SRTM30._dlat)\n            inds_lon = np.logical_and(lon_min <= lons, lons < lon_max)\n            inds_s"),
    ("C20", "trunc-to-round", "typhon/topography.py", "        i_min = np.trunc((90 - lat_max) / SRTM30._dlat)", "        i_min = np.round((90 - lat_max) / SRTM30._dlat)"),
    ("C20", "old-lat-arithmetic", "typhon/topography.py", "        i_min = np.trunc((90 - lat_max) / SRTM30._dlat)\n        i = (90 - lat_min) / SRTM30._dlat\n        i_max = np.trunc(i)\n        if not i_max < i:\n            i_max = i_max - 1", "        i_min = np.trunc((90 - lat_max) / SRTM30._dlat) - 1\n        i = (90 - lat_min) / SRTM30._dlat\n        i_max = np.trunc(i) - 1"),
    ("C20", "dest-mask-closed", "typhon/topography.py", "            inds_lon = np.logical_and(lon_min_s <= lons_d, lons_d < lon_max_s)", "            inds_lon = np.logical_and(lon_min_s <= lons_d, lons_d <= lon_max_s + SRTM30._dlon)"),
    ("C20", "tiles-touching-count", "typhon/topography.py", "    return (lat_min < lat_max) and (lon_min < lon_max)", "    return (lat_min <= lat_max) and (lon_min <= lon_max)"),
    ("C20", "always-download", "typhon/topography.py", "        if not (os.path.exists(dem_file)):\n            SRTM30.download_tile(name)", "        if True:\n            SRTM30.download_tile(name)"),
    ("C20", "lon-180-wrap", "typhon/topography.py", "        if lon_min >= 180:\n            lon_min -= 360", "        if lon_min > 180:\n            lon_min -= 360"),
    ("C20", "jmax-aligned", "typhon/topography.py", "        if not j_max < j:\n            j_max = j_max - 1", "        if not j_max < j:\n            j_max = j_max"),
    ("C05", "search-stops-after-first-file", "typhon/collocations/common.py", "        for _ in collocated_files:\n            pass", "        for _ in collocated_files:\n            break"),
    ("C05", "search-drops-bundle", "typhon/collocations/common.py", "            filesets, output=self, **kwargs\n", "            filesets, output=self, **{k: v for k, v in kwargs.items() if k != 'max_interval'}, max_interval=kwargs.get('max_interval') and '1s'\n"),
    ("C05", "final-flush-dropped", "typhon/collocations/collocator.py", "            # After all iterations, save last cached data to disk:\n            if cached_data:", "            # After all iterations, save last cached data to disk:\n            if False:"),
    ("C05", "no-drain-after-death", "typhon/collocations/collocator.py", "            running = [\n                process for process in running if process.is_alive()\n            ]\n", "            running = [\n                process for process in running if process.is_alive()\n            ]\n            if not running:\n                break\n"),
    ("C05", "max-interval-not-forwarded", "typhon/collocations/collocator.py", "            filesets[1], start=start, end=end, max_interval=max_interval,\n        ))", "            filesets[1], start=start, end=end, max_interval=None,\n        ))"),
    ("C05", "concat-sizes-before-shift", "typhon/collocations/collocator.py", "        primary_size += obj.dims[f\"{primary}/collocation\"]", "        primary_size += obj.dims[f\"{secondary}/collocation\"]"),
    ("C05", "window-not-forwarded", "typhon/collocations/collocator.py", "        kwargs.update({\n            \"start\": start,\n            \"end\": end,", "        kwargs.update({\n            \"start\": None,\n            \"end\": None,"),
    ("C05", "none-results-yielded-stop", "typhon/collocations/collocator.py", "                if collocations is None:\n                    results.put([name, progress, None])\n                    continue", "                if collocations is None:\n                    results.put([name, progress, None])\n                    break"),
    # (never setting the bundle tag only changes how results are grouped, not the bag: equivalent for C05)
    ("C05", "save-cache-drops-current", "typhon/collocations/collocator.py", "                    cached_data = []\n                    cached_attributes = {}\n\n                # So far, we have not cached", "                    cached_data = []\n                    cached_attributes = {}\n                    continue\n\n                # So far, we have not cached"),
    ("C13", "netcdf-ints-become-floats", "typhon/files/handlers/common.py", "                                and not np.ma.is_masked(values):", "                                and False:"),
]


def sh(cmd, **kw):
    return subprocess.run(cmd, shell=True, text=True, stdout=subprocess.PIPE, stderr=subprocess.STDOUT, **kw)


def run_one(m):
    """Mutate a scratch copy of /repo (outside /repo and /verif), run the quick check against it, remove it."""
    import shutil
    import tempfile
    pid, label, f, old, new = m
    src = open(os.path.join(REPO, f)).read()
    edits = list(zip(old, new)) if isinstance(old, (list, tuple)) else [(old, new)]
    for o, _ in edits:
        if src.count(o) != 1:
            return (m, "SKIP (pattern occurs %d times)" % src.count(o), "", False)
    mutated = src
    for o, n_ in edits:
        mutated = mutated.replace(o, n_)
    scratch = tempfile.mkdtemp(prefix="verif-mut-")
    try:
        dst = os.path.join(scratch, "repo")
        shutil.copytree(REPO, dst, ignore=shutil.ignore_patterns(".git", "__pycache__", "doc"))
        open(os.path.join(dst, f), "w").write(mutated)
        env = dict(os.environ, VERIF_NO_EVIDENCE="1", VERIF_REPO=dst, VERIF_REPLAY_DIR=os.path.join(scratch, "replays"))
        r = subprocess.run([os.path.join(VERIF, "bin/check"), pid, "--tier", "quick"], env=env, text=True,
                           stdout=subprocess.PIPE, stderr=subprocess.STDOUT)
        fps = sorted({l.split("replay=")[1].split("/")[-1] for l in r.stdout.splitlines() if l.startswith("VIOLATION")})
        ok = r.returncode == 1
        verdict = "CAUGHT" if ok else "MISSED(rc=%d)" % r.returncode
        tail = r.stdout[-1500:] if r.returncode == 2 else ""
        return (m, verdict, " ".join(x.replace(pid + "-", "").rsplit("-", 1)[0] for x in fps)[:220] + ("\n" + tail if tail else ""), ok)
    finally:
        shutil.rmtree(scratch, ignore_errors=True)


def main():
    from concurrent.futures import ThreadPoolExecutor
    args = sys.argv[1:]
    sub = None
    jobs = 3
    if "-k" in args:
        i = args.index("-k")
        sub = args[i + 1]
        del args[i:i + 2]
    if "-j" in args:
        i = args.index("-j")
        jobs = int(args[i + 1])
        del args[i:i + 2]
    pids = set(args)
    todo = [m for m in MUTANTS if (not pids or m[0] in pids) and (not sub or sub in m[1])]
    bad = 0
    with ThreadPoolExecutor(jobs) as ex:
        for m, verdict, detail, ok in ex.map(run_one, todo):
            print("%s %-26s %s %s" % (m[0], m[1], verdict, detail), flush=True)
            bad += not ok
    sys.exit(1 if bad else 0)


if __name__ == "__main__":
    main()
