"""C15 -- the info cache across saves, crashes, corruption and restarts: every history of CacheDesign that
ends in a restart is replayed on real FileSet objects with the crash injected at the step the history names."""
import datetime as dt
import json
import os
import shutil
import tempfile
import warnings

from vlib.par import pmap
from vlib.tlc import MachineryError


class Crash(BaseException):
    """The process dies here (not an Exception: nothing in typhon may swallow it)."""


class NoAtexit:
    def __init__(self):
        self.registered = []

    def register(self, fn, *a, **k):
        self.registered.append((fn, a, k))
        return fn

    def unregister(self, fn):
        pass


class UnflushedFile:
    """File proxy that models the write buffer of a process that may be KILLED: nothing reaches the disk before close();
    once `dead` is set (the process is gone) the buffered data is lost."""
    def __init__(self, real):
        self.real, self.buf, self.dead = real, [], False

    def write(self, s):
        self.buf.append(s)
        return len(s)

    def flush(self):
        pass

    def close(self):
        if not self.dead and not self.real.closed:
            self.real.write("".join(self.buf))
        self.real.close()

    def __enter__(self):
        return self

    def __exit__(self, *a):
        self.close()
        return False

    def __getattr__(self, name):
        return getattr(self.real, name)


class CrashingFile:
    """File proxy: after `limit` write calls the process 'dies'; what reached the disk is a strict prefix."""
    def __init__(self, real, limit):
        self.real, self.limit, self.n = real, limit, 0

    def write(self, s):
        if self.limit is not None and self.n >= self.limit:
            raise Crash("write")
        self.n += 1
        return self.real.write(s)

    def __enter__(self):
        return self

    def __exit__(self, *a):
        self.real.close()
        return False

    def __getattr__(self, name):
        return getattr(self.real, name)


FAULT = {"armed": False}


def fs_kwargs(kind):
    """Further constructor options of the catalogue kinds: `coverage` names only start times and gets the end from the
    time_coverage OPTION; `faulty` asks a handler as well (info_via='both') whose get_info fails while FAULT is armed."""
    if kind == "coverage":
        return {"time_coverage": "1 hour"}
    if kind == "faulty":
        from typhon.files.handlers.common import FileHandler, FileInfo
        class Handler(FileHandler):
            def get_info(self, file_info, **kw):
                if FAULT["armed"]:
                    raise IOError("transient failure while looking into the file")
                return FileInfo(file_info.path, [None, None], {"orbit": "orbit-" + os.path.basename(file_info.path)[:1]})
        return {"handler": Handler(), "info_via": "both"}
    return {}


def make_catalogue(kind, root):
    """-> template, {entry id: path}, FileSet kwargs"""
    os.makedirs(os.path.join(root, "data"), exist_ok=True)
    paths = {}
    if kind == "coverage":
        tmpl = os.path.join(root, "data", "{sat}_{year}{month}{day}T{hour}{minute}{second}{microsecond}.dat")
        names = {1: "A_20191231T235959999999.dat", 2: "B_20200229T120000000500.dat",
                 3: "A_99991231T225959999999.dat"}             # + 1 hour = datetime.max
    elif kind in ("temporal", "faulty"):
        tmpl = os.path.join(root, "data", "{sat}_{year}{month}{day}T{hour}{minute}{second}{microsecond}-"
                                          "{end_year}{end_month}{end_day}T{end_hour}{end_minute}{end_second}{end_microsecond}.dat")
        names = {1: "A_20191231T235959999999-20200101T000000000001.dat",
                 2: "B_20200229T120000000500-20200229T120000000500.dat",
                 3: "A_10000101T000000000000-99991231T235959999999.dat"}
    else:
        tmpl = os.path.join(root, "data", "{name}-{version}.dat")      # non-temporal: every entry is [datetime.min, datetime.max]
        names = {1: "alpha-v1.dat", 2: "caf\udce9_\u00fc-v2.dat", 3: "gamma-v10.dat"}     # 2: a name that is not valid UTF-8 (PEP 383 lone surrogate) next to a proper non-ASCII letter
    for i, n in names.items():
        try:
            os.fsencode(n)
        except UnicodeError:
            n = n.encode("ascii", "replace").decode().replace("?", "_")     # a file system encoding that cannot spell it
        p = os.path.join(root, "data", n)
        with open(p, "wb") as f:
            f.write(b"x")
        paths[i] = p
    return tmpl, paths


def project(info):
    return (info.path, info.times[0], info.times[1], tuple(sorted(info.attr.items())))


def corrupt(path, variant, rng_n):
    raw = open(path, "rb").read()
    if variant == 0:
        cut = 1 + rng_n % max(1, len(raw) - 2)
        new = raw[:cut]                                   # truncation at an arbitrary byte
    elif variant == 1:
        new = b'{"path": "x"}'                            # wrong JSON type (object instead of list)
    elif variant == 2:
        doc = json.loads(raw)
        for d in doc:
            d.pop("times", None)                          # missing key
        new = json.dumps(doc).encode() if doc else b"[{}]"
    elif variant == 3:
        new = b"[1, 2, 3]"                                # list of the wrong element type
    elif variant == 4:
        doc = json.loads(raw)
        for d in doc:
            d["times"] = ["yesterday", "tomorrow"]        # unparsable times
        new = json.dumps(doc).encode() if doc else b"\xff\xfe"
    elif variant == 5:
        doc = json.loads(raw)
        if len(doc) >= 2:
            doc[-1].pop("path", None)                     # only the LAST entry is malformed
            doc[-1]["times"] = [None]
            new = json.dumps(doc).encode()
        else:
            new = raw[:len(raw) // 2]
    elif variant == 7:
        doc = json.loads(raw)
        for d in doc:
            d.pop("attr", None)                           # another missing key: the attributes
        new = json.dumps(doc).encode() if doc else b"[{}]"
    elif variant in (8, 9, 10, 11):
        # every key is there, but the VALUES of "times" have the wrong JSON type or shape: numbers, strings cut short
        # inside the value, dates without a time, lists around the strings - none of them is a time stamp save_cache wrote
        doc = json.loads(raw)
        for n, d in enumerate(doc):
            ts = [t if isinstance(t, str) else "2018-01-01T00:00:00.000000" for t in d.get("times", [])] or ["2018-01-01T00:00:00.000000"]
            d["times"] = {8: [0, 86400 + n], 9: [t[:13] if k == 0 else t[:7] for k, t in enumerate(ts)],
                          10: [t[:10] for t in ts], 11: [[t] for t in ts]}[variant]
        new = json.dumps(doc).encode() if doc else b"[{}]"
    else:
        new = b""                                         # empty file
    with open(path, "wb") as f:
        f.write(new)


KINDS4 = ["temporal", "nontemporal", "coverage", "faulty"]


def replay(col, item):
    import typhon.files.fileset as FM
    from typhon.files import FileSet
    case, kind, seq, variant = item
    hist = case["hist"]
    root = tempfile.mkdtemp(prefix="verif-c15-")
    cache = os.path.join(root, "cache.json")
    saved = {"atexit": FM.atexit, "shutil": FM.shutil, "open": FM.__dict__.get("open"), "json": FM.json, "os": FM.os}
    rep = {"abstract": {"history": hist, "final_main": case["main"], "loaded": case["loaded"], "warned": case["warned"]},
           "concrete": {"catalogue": kind}}
    try:
        tmpl, paths = make_catalogue(kind, root)
        FM.atexit = NoAtexit()
        truth = {}
        fs = FileSet(tmpl, info_cache=cache, **fs_kwargs(kind))
        corrupted = False
        i = 0
        fingerprint_extra = ""
        while i < len(hist):
            a, arg = hist[i]
            if a == "touch":
                if kind == "faulty" and paths[arg] not in fs.info_cache:
                    # the first look at the file fails (the caller survives it); the second one succeeds
                    FAULT["armed"] = True
                    try:
                        fs.get_info(paths[arg])
                        col.violation("failing-handler-went-unnoticed", dict(rep, at_step=i))
                        return
                    except IOError:
                        pass
                    finally:
                        FAULT["armed"] = False
                info = fs.get_info(paths[arg])
                truth[arg] = project(info)
            elif a == "save_open":
                # gather the steps of this save_cache call
                steps = [a]
                j = i + 1
                while j < len(hist) and hist[j][0] in ("save_write", "save_close", "save_rename"):
                    steps.append(hist[j][0])
                    j += 1
                last = steps[-1]
                fingerprint_extra = last
                if last == "save_rename" and j < len(hist) and hist[j][0] == "crash":
                    # the process is killed right AFTER the rename: whatever was still in a write buffer at that moment is
                    # lost (the backup must have been closed before it was renamed)
                    opened = []
                    def buffering_open(path, mode="r", *aa, **kk):
                        real = open(path, mode, *aa, **kk)
                        if str(path).endswith(".backup") and "w" in mode:
                            opened.append(UnflushedFile(real))
                            return opened[-1]
                        return real
                    def killed(fn):
                        def wrapper(*aa, **kk):
                            r = fn(*aa, **kk)
                            for f in opened:
                                f.dead = True
                            raise Crash("right after the rename")
                        return wrapper
                    class S2:
                        def __getattr__(self, n):
                            return getattr(shutil, n)
                        move = staticmethod(killed(shutil.move))
                    class O2:
                        def __getattr__(self, n):
                            return getattr(os, n)
                        rename = staticmethod(killed(os.rename))
                        replace = staticmethod(killed(os.replace))
                    FM.open, FM.shutil, FM.os = buffering_open, S2(), O2()
                    try:
                        fs.save_cache(cache)
                        col.bump("crash_point_not_reached")
                    except Crash:
                        pass
                    except Exception as ex:
                        col.violation("save-raises-" + type(ex).__name__, dict(rep, observed=repr(ex)[:300], at_step=i))
                        return
                    finally:
                        FM.shutil, FM.os = saved["shutil"], saved["os"]
                        FM.__dict__.pop("open", None)
                elif last == "save_rename":
                    try:
                        fs.save_cache(cache)
                    except Exception as ex:
                        col.violation("save-raises-" + type(ex).__name__, dict(rep, observed=repr(ex)[:300], at_step=i))
                        return
                else:
                    def crashing_open(path, mode="r", *aa, **kk):
                        real = open(path, mode, *aa, **kk)
                        if str(path).endswith(".backup") and "w" in mode:
                            if last == "save_open":
                                real.close()
                                raise Crash("after open")
                            if last == "save_write":
                                # die after 0..4 write calls; an empty cache is dumped with a single write, so 0 must occur
                                return CrashingFile(real, (seq % 5) if fs.info_cache else 0)
                        return real
                    FM.open = crashing_open
                    # second injector, independent of how the backup file is opened: json.dump writes a strict
                    # prefix of the document (or nothing) and the process dies
                    if last in ("save_open", "save_write"):
                        import json as _json
                        class J:
                            def __getattr__(self, n):
                                return getattr(_json, n)
                            def dump(self, obj, fp, *aa, **kk):
                                text = _json.dumps(obj, *aa, **kk)
                                cut = 0 if last == "save_open" else max(1, (len(text) * (1 + seq % 4)) // 5)
                                cut = min(cut, len(text) - 1)
                                real_fp = getattr(fp, "real", fp)
                                real_fp.write(text[:cut])
                                real_fp.flush()
                                raise Crash("json.dump")
                        FM.json = J()
                    if last == "save_close":
                        class S:
                            def __getattr__(self, n):
                                return getattr(shutil, n)
                            def move(self, *aa, **kk):
                                raise Crash("before rename")
                        FM.shutil = S()
                        class O:                      # ... whichever rename primitive is used
                            def __getattr__(self, n):
                                return getattr(os, n)
                            def rename(self, *aa, **kk):
                                raise Crash("before rename")
                            replace = rename
                        FM.os = O()
                    try:
                        fs.save_cache(cache)
                        died = False
                    except Crash:
                        died = True
                    except Exception as ex:
                        col.violation("save-raises-" + type(ex).__name__, dict(rep, observed=repr(ex)[:300], at_step=i))
                        return
                    finally:
                        FM.shutil = saved["shutil"]
                        FM.json, FM.os = saved["json"], saved["os"]
                        FM.__dict__.pop("open", None)
                    if not died:
                        # the document was complete before the chosen write call: this replay no longer follows the
                        # model's history (the save went through), so it is not judged further
                        col.bump("crash_point_not_reached")
                        return
                i = j - 1
            elif a == "exit":
                # normal interpreter exit: whatever typhon registered with atexit for the live object runs now
                reg = FM.atexit.registered
                if not reg:
                    col.violation("no-save-registered-at-exit", dict(rep, at_step=i))
                    return
                try:
                    for fn, aa, kk in reg:
                        fn(*aa, **kk)
                except Exception as ex:
                    col.violation("exit-save-raises-" + type(ex).__name__, dict(rep, observed=repr(ex)[:300], at_step=i))
                    return
                fs = None
                FM.atexit = NoAtexit()
            elif a == "reset":
                # (assigning an UNCHANGED time_coverage also resets the cache today, but an implementation that skipped
                #  that would be just as right: only reset_cache() is documented to empty it)
                fs.reset_cache()
            elif a == "crash":
                fs = None
                FM.atexit = NoAtexit()
            elif a == "corrupt":
                if not os.path.exists(cache):
                    # the adversary damages a complete document (model: main.k = "doc"); here no file was written at all
                    col.violation("completed-save-left-no-cache-file", dict(rep, at_step=i))
                    return
                corrupt(cache, variant, seq)
                corrupted = True
                rep["concrete"]["corruption_variant"] = variant
            elif a == "restart":
                with warnings.catch_warnings(record=True) as w:
                    warnings.simplefilter("always")
                    try:
                        FM.atexit = NoAtexit()          # only the new object's registrations count from here on
                        fs = FileSet(tmpl, info_cache=cache, **fs_kwargs(kind))
                        exc = None
                    except Exception as ex:
                        exc = ex
                if exc is not None:
                    col.violation("restart-raises-" + type(exc).__name__ + ("-corrupt" if corrupted else ""),
                                  dict(rep, observed=repr(exc)[:300], at_step=i))
                    return
                got_warn = any("Could not load" in str(x.message) for x in w)
                last_restart = (fs, got_warn)
            # MainComplete after every step: the cache file is absent or a complete JSON document
            if not corrupted and os.path.exists(cache):
                try:
                    json.loads(open(cache).read())
                except ValueError:
                    col.violation("main-file-partial-after-" + a + ("-" + fingerprint_extra if a == "save_open" else ""),
                                  dict(rep, at_step=i, observed=open(cache, "rb").read()[:200].decode("latin1")))
                    return
            i += 1
        col.count(1)
        fs, got_warn = last_restart
        exp_loaded = sorted(case["loaded"])
        got = {p: project(v) for p, v in fs.info_cache.items()}
        exp = {truth[e][0]: truth[e] for e in exp_loaded}
        if got != exp:
            only_min = kind != "temporal" or 3 in exp_loaded
            col.violation("load-does-not-restore" + ("-extreme-years" if only_min else ""),
                          dict(rep, expected=[str(x) for x in exp.values()], observed=[str(x) for x in got.values()]))
        elif bool(got_warn) != case["warned"]:
            col.violation("warning-" + ("missing" if case["warned"] else "spurious"), dict(rep, observed={"warned": got_warn}))
        else:
            # FindSame: find() answers identically with and without the loaded cache
            plain = FileSet(tmpl, **fs_kwargs(kind))
            a1 = sorted(project(x) for x in fs.find(no_files_error=False))
            a2 = sorted(project(x) for x in plain.find(no_files_error=False))
            if a1 != a2:
                col.violation("find-differs-with-cache", dict(rep, expected=[str(x) for x in a2], observed=[str(x) for x in a1]))
        if any(h[0] == "exit" for h in hist) or any(h[0] == "crash" and k > 0 and hist[k - 1][0].startswith("save_") and hist[k - 1][0] != "save_rename"
               for k, h in enumerate(hist)) or corrupted:
            col.nontrivial.add((json.dumps(hist), kind))
    finally:
        FM.atexit, FM.shutil = saved["atexit"], saved["shutil"]
        FM.json, FM.os = saved["json"], saved["os"]
        FM.__dict__.pop("open", None)
        shutil.rmtree(root, ignore_errors=True)


def truncation_sweep(col, kind):
    """Truncation of a saved cache at EVERY byte: load must warn (or succeed on a complete document), never raise,
    never invent entries."""
    import typhon.files.fileset as FM
    from typhon.files import FileSet
    root = tempfile.mkdtemp(prefix="verif-c15-")
    saved = FM.atexit
    try:
        FM.atexit = NoAtexit()
        tmpl, paths = make_catalogue(kind, root)
        cache = os.path.join(root, "cache.json")
        fs = FileSet(tmpl, info_cache=cache, **fs_kwargs(kind))
        truth = {}
        for e in (1, 2):
            truth[paths[e]] = project(fs.get_info(paths[e]))
        try:
            fs.save_cache(cache)
        except Exception as ex:
            col.violation("save_cache-raises-" + type(ex).__name__, {"abstract": {"kind": kind, "entries": [1, 2]},
                                                                     "concrete": {"names": [os.path.basename(p_) for p_ in truth]},
                                                                     "observed": repr(ex)[:200]})
            return
        raw = open(cache, "rb").read()
        for cut in range(0, len(raw)):
            with open(cache, "wb") as f:
                f.write(raw[:cut])
            with warnings.catch_warnings(record=True) as w:
                warnings.simplefilter("always")
                try:
                    g = FileSet(tmpl, info_cache=cache, **fs_kwargs(kind))
                except Exception as ex:
                    col.violation("restart-raises-" + type(ex).__name__ + "-corrupt",
                                  {"abstract": {"history": "save; truncate at byte %d; restart" % cut}, "concrete": {"catalogue": kind},
                                   "observed": repr(ex)[:200]})
                    return
            col.count(1)
            got = {p: project(v) for p, v in g.info_cache.items()}
            if got and got != truth:
                col.violation("invented-entries-after-truncation", {"abstract": {"cut": cut}, "concrete": {"catalogue": kind},
                                                                    "observed": [str(x) for x in got.values()]})
                return
            if not got and cut > 0 and not any("Could not load" in str(x.message) for x in w):
                col.violation("warning-missing", {"abstract": {"history": "truncate at byte %d" % cut}, "concrete": {"catalogue": kind}})
                return
        col.nontrivial.add(("truncation-sweep", kind))
    finally:
        FM.atexit = saved
        shutil.rmtree(root, ignore_errors=True)


def run(ctx):
    quick = ctx.tier == "quick"
    ctx.rule = ("TLC explores CacheDesign (touch, reset_cache / time_coverage assignment, the four steps of save_cache, crash between any two steps, corruption "
                "by an adversary, restart) and prints every history that ends in a restart with the state the model "
                "prescribes (cache file class, entries restored, warning); each is replayed on real FileSet objects with "
                "the crash raised at that step (BaseException from the backup's k-th write / before the rename), for a "
                "temporal catalogue with microseconds and years 1000/9999 and a non-temporal one (datetime.min/max); plus "
                "truncation of a saved cache at every byte. Non-trivial: histories with a crash inside save_cache or a "
                "corruption.")
    d = ctx.tlc_dir("fileset")
    # unbounded part: MainComplete and LoadOK of the history-free CacheInd (which CacheDesign refines, PROPERTY RefinesInd)
    # are inductive for ANY number of saves, resets, crashes, restarts over six entries (Apalache); negative control: a
    # save that renames the backup before it is closed
    from vlib import apalache
    apalache.inductive(ctx, d, "CacheInd", goals=("MainComplete", "LoadOK"),
                       negative={'SaveRename == /\\ alive /\\ pc = "closed"': 'SaveRename == /\\ alive /\\ pc \\in {"written", "closed"}'})
    with open(os.path.join(d, "MCCache.cfg"), "w") as f:
        f.write("CONSTANTS Entries = %s MaxSaves = 2 MaxLen = %d\nSPECIFICATION Spec\nINVARIANT MainComplete\n"
                "INVARIANT LoadOK\nINVARIANT RoundTrip\nINVARIANT ResetIsSaved\nINVARIANT Emit\nPROPERTY RefinesInd\n" % (("{1,2}", 10) if quick else ("{1,2,3}", 12)))
    res = ctx.tlc(d, "CacheDesign", "MCCache.cfg", workers=1, coverage=True, timeout=1500)
    cov = res.coverage()
    never = [a for a in ("Reset", "SaveOpen", "SaveWrite", "SaveClose", "SaveRename", "Crash", "ExitSave", "Restart", "Corrupt") if cov.get(a, (0, 0))[1] == 0]
    if never:
        raise MachineryError("CacheDesign actions never taken: %s" % never)
    cases = list(res.tagged("CASE"))
    if len(cases) < 100:
        raise MachineryError("too few cache histories")
    ctx.exhaustive = True
    if quick:
        cases = cases[::2]
    items = []
    for n, c in enumerate(cases):
        has_corrupt = any(h[0] == "corrupt" for h in c["hist"])
        for k in ((KINDS4[n % 4],) if quick else KINDS4):
            for v in (([(n + j) % 12 for j in range(8)] if quick else range(12)) if has_corrupt else (0,)):
                items.append((c, k, n, v))
    ctx.notes["histories_ending_in_a_restart"] = len(cases)
    CAP = 150000
    if len(items) > CAP:
        # the model check above is exhaustive; the REPLAY of its histories is a uniform sample beyond this size
        ctx.notes["replayed_sample_of"] = len(items)
        items = ctx.rng.sample(items, CAP)
        ctx.exhaustive = False
    pmap(ctx, replay, items)
    pmap(ctx, truncation_sweep, ["temporal", "nontemporal", "coverage"], procs=1)
    if ctx.notes.get("crash_point_not_reached"):
        ctx.notes["crash_note"] = ("some crash points could not be reached through typhon.files.fileset.open/shutil (save_cache "
                                   "restructured?): those histories were replayed without the crash")
    ctx.traces += len(items)
    ctx.sample({"history": cases[len(cases) // 2]["hist"], "model_says": {k: cases[len(cases) // 2][k] for k in ("main", "loaded", "warned")}})
