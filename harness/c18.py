"""C18 (partial) -- BMCI bookkeeping in the degenerate-weight regimes against BmciProps."""
import itertools
import json
import os

import numpy as np

from numlib import close, fl
from vlib.par import pmap
from vlib.tlc import MachineryError

UNDECIDED = ["the value of the estimates for genuinely Gaussian weights exp(-chi^2/2)",
             "'estimates change by no more than the left-out weight share' for non-degenerate weights"]

# (index-aligned with Sinvs(m) / X2s of BmciProps; the first entries also serve as D of the spike / flat regimes)
DS = {1: [np.array([[1.0]]), np.array([[4.0]]), np.array([[0.25]])],
      2: [np.eye(2), np.diag([1.0, 4.0]), np.array([[2.0, 1.0], [1.0, 2.0]]), np.array([[5.0, 2.0], [2.0, 2.0]]),
          np.diag([0.25, 1.0]), np.array([[0.25, 0.125], [0.125, 0.25]])]}
DS[3] = [np.eye(3), np.diag([1.0, 4.0, 9.0]), np.eye(3) + np.ones((3, 3)), 4.0 * np.eye(3) - np.ones((3, 3))]
CORRELATED = {1: set(), 2: {2, 3, 5}, 3: {2, 3}}
X2S = [0.5, 2.0, 5.0, 8.0]


def replay(col, item):
    from typhon.retrieval.bmci import BMCI
    case, n = item
    db = case["db"]
    m = len(db[0][0])
    y = np.array([e[0] for e in db], dtype=float)
    x = np.array([e[1] for e in db], dtype=float)
    yobs = np.array([case["y"]], dtype=float)
    D = DS[m][n % len(DS[m])]
    perms = list(itertools.permutations(range(len(db))))
    perms = perms if len(perms) <= 6 else [perms[0], perms[-1], perms[(7 * n) % len(perms)], perms[(13 * n + 5) % len(perms)]]
    for regime, scale in (("spike", 1e-6), ("flat", 1e12)):
        exp = case[regime]
        rep = {"abstract": {"db": db, "y": case["y"], "regime": regime, "D": D.tolist()}}
        tol = 1e-9
        for perm in perms:
            idx = list(perm)
            # x2_max = 0 puts exact matches ON the window boundary: they must be kept (chi-square 0 does not exceed 0),
            # for diagonal and for correlated D alike
            for x2 in ((-1.0, 0.0, 0.5, 50.0) if regime == "spike" else (-1.0,)):
                conf = {"permutation": idx, "x2_max": x2}
                try:
                    b = BMCI(y[idx].copy(), x[idx].copy(), D * scale)
                    with np.errstate(all="ignore"):
                        mean, std = b.predict(yobs.copy(), x2_max=x2)
                except Exception as ex:
                    col.violation("predict-raises-%s-%s" % (type(ex).__name__, "no-hit" if exp["empty"] else "hits"),
                                  dict(rep, concrete=conf, observed=repr(ex)[:200]))
                    continue
                col.count(1)
                if exp["empty"]:
                    if not (np.isnan(mean[0]) and np.isnan(std[0])):
                        col.violation("predict-not-nan-without-hits", dict(rep, concrete=conf, observed=[float(mean[0]), float(std[0])]))
                    try:
                        with np.errstate(all="ignore"):
                            _, cum = b.cdf(yobs[0].copy(), x2_max=x2)
                            q = b.predict_quantiles(yobs.copy(), [0.1, 0.9], x2_max=x2)[0]
                        col.count(2)
                        if not np.all(np.isnan(np.asarray(cum, dtype=float))) or not np.all(np.isnan(q)):
                            col.violation("cdf-or-quantiles-not-nan-without-hits", dict(rep, concrete=conf,
                                                                                        observed=[np.asarray(cum).tolist(), q.tolist()]))
                    except Exception as ex:
                        col.violation("cdf-or-quantiles-raise-%s-no-hit" % type(ex).__name__, dict(rep, concrete=conf, observed=repr(ex)[:200]))
                    continue
                if not close(mean[0], fl(exp["mean"]), tol) or not close(std[0] ** 2, fl(exp["var"]), 1e-8):
                    kind = "x2max-changes-estimate" if x2 >= 0 else "wrong-mean-or-std"
                    col.violation("predict-" + kind, dict(rep, concrete=conf, expected=[fl(exp["mean"]), fl(exp["var"])],
                                                          observed=[float(mean[0]), float(std[0] ** 2)]))
                # cdf and quantiles
                try:
                    with np.errstate(all="ignore"):
                        xs, cum = b.cdf(yobs[0].copy(), x2_max=x2)
                        q = b.predict_quantiles(yobs.copy(), [0.0, 0.1, 0.5, 0.9, 1.0], x2_max=x2)[0]
                except Exception as ex:
                    col.violation("cdf-or-quantiles-raise-" + type(ex).__name__, dict(rep, concrete=conf, observed=repr(ex)[:200]))
                    continue
                col.count(2)
                xs, cum = np.asarray(xs, dtype=float).ravel(), np.asarray(cum, dtype=float).ravel()
                # cdf(): x ascending from the smallest x, cumulative weight non-decreasing, ending at 1; at every listed x the
                # cumulative weight lies between the share of selected entries strictly below and up to that x
                # (entries with zero weight may be listed, ties may be ordered either way)
                sel = np.array(exp["xs"], dtype=float)
                ok = xs.size == cum.size and xs.size > 0 and np.all(np.diff(xs) >= 0) and np.all(np.diff(cum) >= -1e-15) \
                    and close(cum[-1], 1.0) and set(sel.tolist()) <= set(xs.tolist())
                if ok:
                    for xv, cv in zip(xs, cum):
                        lo_share = np.mean(sel < xv)
                        hi_share = np.mean(sel <= xv)
                        if not (lo_share - 1e-9 <= cv <= hi_share + 1e-9):
                            ok = False
                if not ok:
                    col.violation("cdf-wrong", dict(rep, concrete=conf, expected={"selected_x_sorted": exp["xs"]},
                                                    observed=[xs.tolist(), cum.tolist()]))
                if np.any(np.diff(q) < -1e-12) or q.min() < exp["lo"] - 1e-12 or q.max() > exp["hi"] + 1e-12:
                    col.violation("quantiles-not-monotone-or-out-of-range", dict(rep, concrete=conf, expected=[exp["lo"], exp["hi"]],
                                                                                  observed=q.tolist()))
    # x2_max may only leave out entries whose chi-square exceeds it: with S = D (weights of order one) the candidate
    # window of weights() must contain every entry TLC lists (chi-square computed exactly over the rationals)
    from collections import Counter
    for d, Dm in enumerate(DS[m]):
        # ONE object per covariance, asked with growing x2_max: each call answers for the x2_max it is given
        try:
            b_shared = BMCI(y.copy(), x.copy(), Dm)
        except Exception as ex:
            col.violation("weights-raises-" + type(ex).__name__, {"abstract": {"db": db, "D": Dm.tolist()}, "observed": repr(ex)[:200]})
            continue
        for q, x2 in enumerate(X2S):
            must = case["must"][d][q]
            try:
                b = b_shared
                i_l, i_u, _ = b.weights(yobs[0].copy(), x2)
                kept = Counter((tuple(r), float(v)) for r, v in zip(np.asarray(b.y[i_l:i_u]).tolist(), np.asarray(b.x[i_l:i_u]).ravel().tolist()))
            except Exception as ex:
                col.violation("weights-raises-" + type(ex).__name__, {"abstract": {"db": db, "y": case["y"], "D": Dm.tolist(), "x2_max": x2},
                                                                      "observed": repr(ex)[:200]})
                continue
            col.count(1)
            need = Counter((tuple(float(v) for v in db[i - 1][0]), float(db[i - 1][1])) for i in must)
            if any(kept[k] < n_ for k, n_ in need.items()):
                col.violation("x2max-window-drops-entry-within-chi2" + ("-correlated" if d in CORRELATED[m] else ""),
                              {"abstract": {"db": db, "y": case["y"], "D": Dm.tolist(), "x2_max": x2, "must_keep": must},
                               "observed": {"window": [i_l, i_u], "kept": [list(k[0]) + [k[1]] for k in kept]}})
    # one chi-square shell: all weights are equal under S = D itself (no degenerate scaling), so predict() must give the
    # plain mean and spread of the whole database (= the flat regime's values) -- this binds S^-1 as typhon computes it
    for d, Dm in enumerate(DS[m]):
        if not case["shell"][d] or fl(case["chi2"][d]) > 200:
            continue
        # (also in units 2^20 times larger - numbers 2^20 times smaller, covariance entries around 1e-12: every chi-square
        #  is unchanged, the correlations are as strong as before)
        for perm, unit in ((perms[0], 1.0), (perms[1 % len(perms)], 1.0), (perms[0], 2.0 ** -20)):
            idx = list(perm)
            try:
                b = BMCI(y[idx].copy() * unit, x[idx].copy(), Dm.copy() * unit * unit)
                with np.errstate(all="ignore"):
                    mean, std = b.predict(yobs.copy() * unit)
            except Exception as ex:
                col.violation("predict-raises-%s-one-shell" % type(ex).__name__,
                              {"abstract": {"db": db, "y": case["y"], "D": Dm.tolist()}, "observed": repr(ex)[:200]})
                continue
            col.count(1)
            if len({tuple(e[0]) for e in db}) > 1:
                col.bump("one_shell_runs_with_distinct_measurements")
            exp = case["flat"]
            if not close(mean[0], fl(exp["mean"]), 1e-9) or not close(std[0] ** 2, fl(exp["var"]), 1e-8):
                col.violation("predict-unequal-weights-on-one-chi2-shell" + ("-correlated" if d in CORRELATED[m] else ""),
                              {"abstract": {"db": db, "y": case["y"], "D": Dm.tolist(), "chi2_of_every_entry": case["chi2"][d]},
                               "concrete": {"permutation": idx, "unit_scale": unit}, "expected": [fl(exp["mean"]), fl(exp["var"])],
                               "observed": [float(mean[0]), float(std[0] ** 2)]})
    # several observations in ONE call (rows of y_obs): the observation, one far outside the database, the observation
    # again - on one BMCI object, with an integer-typed database; every row is answered like a call of its own
    far = np.full(m, 7.0)
    multi = np.vstack([yobs[0], far, yobs[0]])
    for x2 in (-1.0, 0.0, 50.0):
        exp = case["spike"]
        far_empty = True                       # (7, .., 7) matches no entry of a database over 0..2
        try:
            b = BMCI(y.astype(int), x.astype(int), DS[m][n % len(DS[m])] * 1e-6)
            with np.errstate(all="ignore"):
                mean, std = b.predict(multi.copy(), x2_max=x2)
                q = b.predict_quantiles(multi.copy(), [0.25, 0.75], x2_max=x2)
        except Exception as ex:
            col.violation("predict-raises-%s-several-observations" % type(ex).__name__,
                          {"abstract": {"db": db, "y_obs_rows": multi.tolist(), "x2_max": x2}, "observed": repr(ex)[:200]})
            continue
        col.count(1)
        mean, std, q = np.asarray(mean, dtype=float).ravel(), np.asarray(std, dtype=float).ravel(), np.asarray(q, dtype=float)
        ok = mean.shape == (3,) and std.shape == (3,) and q.shape == (3, 2) and np.isnan(mean[1]) and np.isnan(std[1]) and np.all(np.isnan(q[1]))
        if ok:
            for r in (0, 2):
                if exp["empty"]:
                    ok = ok and np.isnan(mean[r]) and np.isnan(std[r])
                else:
                    ok = ok and close(mean[r], fl(exp["mean"]), 1e-9) and close(std[r] ** 2, fl(exp["var"]), 1e-8) \
                        and q[r][0] <= q[r][1] + 1e-12 and exp["lo"] - 1e-12 <= q[r][0] and q[r][1] <= exp["hi"] + 1e-12
        if not ok:
            col.violation("predict-wrong-for-several-observations", {"abstract": {"db": db, "y_obs_rows": multi.tolist(), "x2_max": x2},
                                                                     "expected": "row 1 NaN; rows 0 and 2: " + ("NaN" if exp["empty"] else repr([fl(exp["mean"]), fl(exp["var"])])),
                                                                     "observed": [mean.tolist(), (std ** 2).tolist(), q.tolist()]})
    # a large common offset in every CHANNEL (2^22, exact in binary): the observation is still the same distance from
    # every entry, so the spike-regime estimates are the same - for x2_max = 0 (exact matches on the window boundary) too
    offy = 2.0 ** 22
    for d, Dm in enumerate(DS[m]):
        for x2, scale in ((0.0, 1.0), (0.5, 1.0), (0.0, 2.0 ** 23)):
            # (scale: measurements in units 2^23 times smaller, i.e. numbers 2^23 times larger, covariance 2^46 times
            #  larger: every chi-square is unchanged)
            exp = case["spike"]
            try:
                b = BMCI((y.copy() + offy) * scale, x.copy(), Dm * 1e-6 * scale * scale)
                with np.errstate(all="ignore"):
                    mean, std = b.predict((yobs.copy() + offy) * scale, x2_max=x2)
            except Exception as ex:
                col.violation("predict-raises-%s-channel-offset" % type(ex).__name__,
                              {"abstract": {"db": db, "y": case["y"], "D": Dm.tolist(), "channel_offset": offy}, "observed": repr(ex)[:200]})
                continue
            col.count(1)
            bad = (not (np.isnan(mean[0]) and np.isnan(std[0]))) if exp["empty"] else \
                (not close(mean[0], fl(exp["mean"]), 1e-9) or not close(std[0] ** 2, fl(exp["var"]), 1e-8))
            if bad:
                col.violation("predict-wrong-with-channel-offset" + ("-correlated" if d in CORRELATED[m] else ""),
                              {"abstract": {"db": db, "y": case["y"], "D": Dm.tolist(), "channel_offset": offy, "x2_max": x2},
                               "expected": "NaN" if exp["empty"] else [fl(exp["mean"]), fl(exp["var"])],
                               "observed": [float(mean[0]), float(std[0] ** 2)]})
    # large constant offset in x (exact in binary): the spread must not be lost to cancellation (spike regime: weights are 0/1)
    if not case["spike"]["empty"]:
        off = 2.0 ** 26
        try:
            b = BMCI(y.copy(), x.copy() + off, DS[m][0] * 1e-6)
            with np.errstate(all="ignore"):
                mean, std = b.predict(yobs.copy())
            col.count(1)
            # the mean is judged relative to its own magnitude (one ulp at 2^26 is 1.5e-8), the spread must be exact to 1e-6
            if not close(mean[0], off + fl(case["spike"]["mean"]), 1e-12) or abs(std[0] ** 2 - fl(case["spike"]["var"])) > 1e-6:
                col.violation("predict-loses-precision-with-offset", {"abstract": {"db": db, "y": case["y"], "x_offset": off},
                                                                      "expected": [fl(case["spike"]["mean"]), fl(case["spike"]["var"])],
                                                                      "observed": [float(mean[0] - off), float(std[0] ** 2)]})
        except Exception as ex:
            col.violation("predict-raises-" + type(ex).__name__, {"abstract": {"db": db, "x_offset": off}, "observed": repr(ex)[:200]})
    if len({e[1] for e in db}) < len(db) or case["spike"]["empty"] or len(db) >= 3:
        col.nontrivial.add(json.dumps([db, case["y"]]))


def run(ctx):
    quick = ctx.tier == "quick"
    ctx.undecided = UNDECIDED
    ctx.rule = ("TLC enumerates (samples) databases of <= 4 entries with 1-3 integer channels (duplicates, constant x) and an "
                "observation inside / outside the database, and prescribes for the spike regime (S = 1e-6 D: exact matches "
                "only) and the flat regime (S = 1e12 D: all entries alike) the mean, the variance, the x-sorted selection, its "
                "cumulative shares and the x range; BMCI.predict / cdf / predict_quantiles are run for permutations of the "
                "database, diagonal and correlated D, and x2_max in {-1, 0, 0.5, 50}. Non-trivial: databases with ties, >= 3 "
                "entries or no hit.")
    d = ctx.tlc_dir("num")
    cases = []
    for mchan in (1, 2, 3):
        with open(os.path.join(d, "MCBmci.cfg"), "w") as f:
            f.write("CONSTANTS MChan = %d MaxN = 4 NSample = %d\nINIT Init\nNEXT Next\nINVARIANT Laws\nINVARIANT Emit\n"
                    % (mchan, 14 if quick else 200))
        res = ctx.tlc(d, "BmciProps", "MCBmci.cfg", workers=1, seed=ctx.seed + mchan, timeout=1500)
        cases += list(res.tagged("CASE"))
    if len(cases) < 50:
        raise MachineryError("too few BMCI cases")
    pmap(ctx, replay, [(c, n) for n, c in enumerate(cases)])
    if ctx.notes.get("one_shell_runs_with_distinct_measurements", 0) < 40:
        raise MachineryError("too few one-shell databases: the equal-weights clause was not exercised")
    ctx.traces += len(cases)
    ctx.sample({k: cases[5][k] for k in ("db", "y", "spike", "flat")})
