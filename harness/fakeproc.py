"""Thread-backed stand-ins for multiprocessing.Process / Queue with the semantics that matter for the result
queue of collocate_filesets: a per-producer local buffer, a feeder that moves items to the shared pipe after a
(random) delay, a bounded semaphore, and a producer that 'exits' only after its buffer is flushed."""
import collections
import random
import threading
import time


class FakeWorld:
    def __init__(self, seed):
        self.rng = random.Random(seed)
        self.lock = threading.Lock()
        self.log = []          # [kind, child, seq]
        self.names = {}

    def delay(self, scale=0.002):
        time.sleep(self.rng.random() * scale if self.rng.random() < 0.7 else 0)


def make_fakes(world):
    class FakeQueue:
        instances = []

        def __init__(self, maxsize=0):
            self.sem = threading.BoundedSemaphore(maxsize) if maxsize else None
            self.pipe = collections.deque()
            self.buffers = {}
            self.cv = threading.Condition()
            self.seq = {}
            FakeQueue.instances.append(self)
            self.is_results = maxsize > 0

        def put(self, item):
            me = threading.current_thread().name
            if self.sem is not None:
                self.sem.acquire()
            with self.cv:
                buf = self.buffers.setdefault(me, collections.deque())
                n = self.seq[me] = self.seq.get(me, 0) + 1
                buf.append((me, n, item))
                if self.is_results:
                    with world.lock:
                        world.log.append(["put", me, n])
            threading.Thread(target=self._feed, args=(me,), daemon=True).start()

        def _feed(self, me):
            world.delay()
            with self.cv:
                buf = self.buffers[me]
                if buf:
                    self.pipe.append(buf.popleft())
                    self.cv.notify_all()

        def flushed(self, me):
            with self.cv:
                return not self.buffers.get(me)

        def empty(self):
            world.delay(0.0005)
            with self.cv:
                return not self.pipe

        def get(self):
            with self.cv:
                while not self.pipe:
                    self.cv.wait(0.01)
                me, n, item = self.pipe.popleft()
            if self.sem is not None:
                self.sem.release()
            if self.is_results:
                with world.lock:
                    world.log.append(["get", me, n])
            return item

        def qsize(self):
            with self.cv:
                return len(self.pipe)

    class FakeProcess:
        count = 0

        def __init__(self, target=None, args=(), kwargs=None, daemon=None):
            FakeProcess.count += 1
            self.name = "child-%d" % FakeProcess.count
            self.target, self.args, self.kwargs = target, args, kwargs or {}
            self.thread = threading.Thread(target=self._run, name=self.name, daemon=True)
            self.exc = None

        def _run(self):
            try:
                self.target(*self.args, **self.kwargs)
            except BaseException as ex:      # a crashed child: the exception stays in the child
                self.exc = ex
            # a real process joins the feeder threads of its queues before it exits
            for q in FakeQueue.instances:
                while not q.flushed(self.name):
                    time.sleep(0.0005)

        def start(self):
            self.thread.start()

        def is_alive(self):
            world.delay(0.0005)
            return self.thread.is_alive()

        def join(self, timeout=None):
            self.thread.join(timeout)

    return FakeProcess, FakeQueue
