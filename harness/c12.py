"""C12 -- compress / decompress: every terminal state of CompressDesign (fault placement x mode) is
replayed with the fault injected through module-level names of typhon.files.utils."""
import bz2
import gzip
import json
import lzma
import os
import shutil
import tempfile
import zipfile

from vlib.par import pmap
from vlib.tlc import MachineryError

FORMATS = ["gz", "bz2", "zip", "xz"]
CONTENTS = {
    "empty": b"",
    "one": b"\x00",
    "chunks": bytes(range(256))[:22],            # 3 * chunk(7) + 1 with the forced copy length
    "binary": bytes((i * 37 + 11) % 256 for i in range(1000)),
    "compressed": gzip.compress(b"already compressed payload " * 20),
}


class Boom(Exception):
    pass


class Proxy:
    """Delegates to a module, overriding selected attributes."""
    def __init__(self, mod, **over):
        self._mod, self._over = mod, over

    def __getattr__(self, name):
        if name in self._over:
            return self._over[name]
        return getattr(self._mod, name)


def stdlib_read(path, fmt, member):
    if fmt == "gz":
        with gzip.open(path, "rb") as f:
            return f.read()
    if fmt == "bz2":
        with bz2.open(path, "rb") as f:
            return f.read()
    if fmt == "xz":
        with lzma.open(path, "rb") as f:
            return f.read()
    with zipfile.ZipFile(path) as z:
        names = z.namelist()
        if len(names) != 1:
            raise ValueError("zip members: %r" % names)
        return z.read(names[0])


def stdlib_write(path, fmt, data, member):
    if fmt == "gz":
        with gzip.open(path, "wb") as f:
            f.write(data)
    elif fmt == "bz2":
        with bz2.open(path, "wb") as f:
            f.write(data)
    elif fmt == "xz":
        with lzma.open(path, "wb") as f:
            f.write(data)
    else:
        with zipfile.ZipFile(path, "w", zipfile.ZIP_DEFLATED) as z:
            z.writestr(member, data)


def classify_target(path, fmt, data, old):
    if not os.path.exists(path):
        return "absent"
    raw = open(path, "rb").read()
    if old is not None and raw == old:
        return "old"
    try:
        if stdlib_read(path, fmt, None) == data:
            return "archive"
    except Exception:
        pass
    return "partial"


def replay(col, item):
    import typhon.files.utils as U
    case, fmt, cname, naming, seq = item
    data = CONTENTS[cname]
    work = tempfile.mkdtemp(prefix="verif-c12-")
    owned_tmp = os.path.join(work, "tmp")
    os.mkdir(owned_tmp)
    base = {"plain": "file", "dots": "a.b.c.nc", "fmtarg": "plain.dat", "suffixchars": {"zip": "map", "gz": "log.z", "bz2": "tab2", "xz": "box"}[fmt]}[naming]
    known = case["known"]
    use_fmt_arg = naming == "fmtarg" and case["mode"] == "compress" and known
    suffix = ("." + fmt) if known and not use_fmt_arg else ("" if use_fmt_arg else ".dat")
    target = os.path.join(work, "out", base + suffix)
    os.mkdir(os.path.join(work, "out"))
    member = base
    old = None
    fault = case["fault"]
    saved = {"shutil": U.shutil, "tempfile": U.tempfile, "table": dict(U._known_compressions), "open": U.__dict__.get("open")}
    sys_tmp = tempfile.tempdir
    explicit_tmp = seq % 2 == 0
    if not explicit_tmp:
        tempfile.tempdir = owned_tmp
    conf = {"format": fmt, "content": cname, "naming": naming, "explicit_tmpdir": explicit_tmp, "target": os.path.basename(target)}
    rep = {"abstract": case, "concrete": conf}
    raised = None
    yielded = None
    read_back = None
    hit = {"n": 0}          # was the injected fault point reached at all? (an implementation may take another route)
    try:
        # small copy chunks everywhere, so that contents span several chunks
        def copy7(fsrc, fdst, length=0):
            return shutil.copyfileobj(fsrc, fdst, 7)
        def copy_boom(fsrc, fdst, length=0):
            hit["n"] += 1
            fdst.write(fsrc.read(3))
            raise Boom("copy")
        U.shutil = Proxy(shutil, copyfileobj=copy_boom if fault in ("copy", "copyout") else copy7)
        if fault == "mktmpdir":
            def no_dir(*a, **k):
                hit["n"] += 1
                raise Boom("mktmpdir")
            U.tempfile = Proxy(tempfile, TemporaryDirectory=no_dir)
        if fault == "mktmpfile":
            def no_file(*a, **k):
                hit["n"] += 1
                raise Boom("mktmpfile")
            U.tempfile = Proxy(tempfile, NamedTemporaryFile=no_file)
        if fault in ("opentarget", "openarchive") or (fault == "copy" and fmt == "zip"):
            key = fmt if fmt in U._known_compressions else "." + fmt
            orig = U._known_compressions.get(key)
            if orig is not None:
                if fault == "copy":
                    class ZipBoom(zipfile.ZipFile):
                        def write(self, *a, **k):
                            hit["n"] += 1
                            raise Boom("copy")
                    U._known_compressions[key] = ZipBoom
                else:
                    def opener(*a, **k):
                        hit["n"] += 1
                        raise Boom(fault)
                    U._known_compressions[key] = opener
            if fault == "opentarget":
                def faulty_open(path, mode="r", *a, **k):
                    if os.path.abspath(str(path)) == os.path.abspath(target) and "w" in mode:
                        hit["n"] += 1
                        raise Boom("opentarget")
                    return open(path, mode, *a, **k)
                U.open = faulty_open
        if case["mode"] == "compress":
            if case["target0"] == "old":
                old = b"previous content of the target"
                with open(target, "wb") as f:
                    f.write(old)
            kw = {"tmpdir": owned_tmp} if explicit_tmp else {}
            if use_fmt_arg:
                kw["fmt"] = fmt
            try:
                with U.compress(target, **kw) as name:
                    yielded = name
                    with open(name, "wb") as f:
                        f.write(data)
                    if fault == "body":
                        raise Boom("body")
            except Boom as ex:
                raised = str(ex)
        else:
            # the archive is produced by the standard library, not by typhon
            if known:
                stdlib_write(target, fmt, data, member)
            else:
                with open(target, "wb") as f:
                    f.write(data)
            if fault == "copyout" and seq % 3 == 0 and fmt != "zip" and len(data) > 0:
                # a genuinely truncated archive instead of an injected copy error
                raw = open(target, "rb").read()
                with open(target, "wb") as f:
                    f.write(raw[:max(1, len(raw) // 2)])
                U.shutil = Proxy(shutil, copyfileobj=copy7)
                conf["truncated_archive"] = True
            kw = {"tmpdir": owned_tmp} if explicit_tmp else {}
            dtarget = None
            if seq % 5 == 4 and known and fault != "mktmpfile":
                dtarget = os.path.join(work, "out", "explicit.tmp")
                kw = {"target": dtarget}
                if seq % 10 == 9:
                    # a LONGER file already sits at the explicit target path ("this file will be overwritten")
                    with open(dtarget, "wb") as f:
                        f.write(b"x" * (len(data) + 100))
                    conf["explicit_target_existed"] = True
            try:
                with U.decompress(target, **kw) as name:
                    yielded = name
                    with open(name, "rb") as f:
                        read_back = f.read()
                    if fault == "body":
                        raise Boom("body")
            except Boom as ex:
                raised = str(ex)
            except (EOFError, OSError, lzma.LZMAError, zipfile.BadZipFile, ValueError) as ex:
                raised = "corrupt:" + type(ex).__name__
            if dtarget is not None and os.path.exists(dtarget):
                col.violation("decompress-explicit-target-left-behind", dict(rep, observed=os.listdir(os.path.dirname(dtarget))))
    except Exception as ex:
        raised = "unexpected " + type(ex).__name__ + ": " + str(ex)[:100]
    finally:
        U.shutil, U.tempfile = saved["shutil"], saved["tempfile"]
        U._known_compressions.clear()
        U._known_compressions.update(saved["table"])
        if saved["open"] is None:
            U.__dict__.pop("open", None)
        else:
            U.open = saved["open"]
        tempfile.tempdir = sys_tmp
    if fault not in ("none", "body") and known and hit["n"] == 0 and raised is None and not conf.get("truncated_archive"):
        # the implementation never went through the instrumented name: this fault placement could not be injected,
        # so the run was a fault-free one and is not judged against the faulty history
        col.bump("fault_point_not_reached")
        shutil.rmtree(work, ignore_errors=True)
        return
    col.count(1)
    try:
        debris = sorted(os.listdir(owned_tmp))
        out_listing = sorted(os.listdir(os.path.join(work, "out")))
        # --- NoDebris
        if debris:
            col.violation("debris-%s-%s" % (case["mode"], fault), dict(rep, observed={"tmp_listing": debris}))
        extra = [x for x in out_listing if x != os.path.basename(target)]
        if extra:
            col.violation("debris-in-target-dir-%s" % case["mode"], dict(rep, observed={"target_dir": out_listing}))
        # --- exception surfaces exactly when the model says so
        if raised is not None and raised.startswith("unexpected"):
            col.violation("unexpected-exception-%s-%s" % (case["mode"], fault), dict(rep, observed=raised))
        elif bool(raised) != case["raised"]:
            col.violation("fault-swallowed-or-spurious-%s-%s" % (case["mode"], fault), dict(rep, observed={"raised": raised}))
        # --- yielded name
        if case["yielded"] == "given-name" and yielded != target:
            col.violation("passthrough-not-untouched", dict(rep, observed={"yielded": yielded}))
        if case["yielded"] == "temp-name" and yielded == target:
            col.violation("no-temporary-copy", dict(rep, observed={"yielded": yielded}))
        if case["mode"] == "compress":
            got = classify_target(target, fmt, data, old) if known else \
                ("old" if os.path.exists(target) and old is not None and open(target, "rb").read() == old and fault == "body"
                 else "absent" if not os.path.exists(target) else "written")
            if known and case["target"] != "partial" and got != case["target"]:
                kind = "not-a-genuine-archive-" + fmt if case["target"] == "archive" else "body-exception-touched-target"
                col.violation(kind, dict(rep, expected=case["target"], observed=got))
            if known and case["target"] == "archive" and got == "archive" and fmt == "zip":
                with zipfile.ZipFile(target) as z:
                    if z.namelist() != [member if not use_fmt_arg else os.path.splitext(os.path.basename(target))[0] if os.path.basename(target).endswith(fmt) else os.path.basename(target)]:
                        pass     # member naming is not part of the property
            if not known and fault == "none":
                # pass-through: the caller wrote straight into the given name
                if not os.path.exists(target) or open(target, "rb").read() != data:
                    col.violation("passthrough-content", dict(rep, observed="target differs from what was written"))
        else:
            if fault == "none" and read_back != data:
                col.violation("roundtrip-content-" + fmt, dict(rep, observed={"read_back_len": None if read_back is None else len(read_back)}))
            if yielded is not None and yielded != target and os.path.exists(yielded):
                col.violation("decompressed-copy-left-behind", dict(rep, observed=yielded))
            # the archive itself is never modified by reading it
            if fault != "copyout" or not conf.get("truncated_archive"):
                ok = (stdlib_read(target, fmt, member) == data) if known else (open(target, "rb").read() == data)
                if not ok:
                    col.violation("archive-modified-by-decompress", dict(rep))
        if fault != "none" or cname in ("chunks", "compressed") or naming != "plain":
            col.nontrivial.add((case["mode"], known, fault, case["target0"], fmt, cname, naming))
    finally:
        shutil.rmtree(work, ignore_errors=True)


def roundtrip(col, item):
    """decompress(compress(b)) = b through typhon on both sides, all formats/contents/namings."""
    import typhon.files.utils as U
    fmt, cname, naming = item
    data = CONTENTS[cname]
    work = tempfile.mkdtemp(prefix="verif-c12-")
    try:
        base = {"plain": "file", "dots": "a.b.c.nc", "suffixchars": {"zip": "temp.p", "gz": "log.gz", "bz2": "b2", "xz": "x.x"}[fmt],
                "uppercase": "DATA", "mixedcase": "map.v2", "bare-format-name": "", "dot-format-name": "",
                # the longest name the file system takes (NAME_MAX, usually 255, bytes with the suffix), partly in two-byte characters
                "longest": "m\u00e9t\u00e9o-" + "x" * (os.pathconf(work, "PC_NAME_MAX") - 8 - 1 - len(fmt))}[naming]
        # an upper- or mixed-case suffix is either a compression suffix or it is not: the name is passed through untouched
        # or a genuine archive is stored -- in both readings the bytes come back and exactly one file is left
        suffix = fmt.upper() if naming == "uppercase" else fmt.capitalize() if naming == "mixedcase" else fmt
        target = os.path.join(work, base + "." + suffix)
        if naming == "bare-format-name":
            target = os.path.join(work, fmt)              # a file called "gz" / "zip": no suffix at all
        elif naming == "dot-format-name":
            target = os.path.join(work, "." + fmt)        # ".gz": a hidden file without a suffix (os.path.splitext)
        with U.compress(target, tmpdir=work) as name:
            with open(name, "wb") as f:
                f.write(data)
        with U.decompress(target, tmpdir=work) as name:
            back = open(name, "rb").read()
        col.count(1)
        rep = {"abstract": {"mode": "roundtrip", "fault": "none"}, "concrete": {"format": fmt, "content": cname, "naming": naming}}
        if back != data:
            col.violation("roundtrip-content-" + fmt, dict(rep, observed=len(back)))
        if naming in ("uppercase", "mixedcase", "bare-format-name", "dot-format-name") and os.path.exists(target):
            raw = open(target, "rb").read()
            genuine = False
            try:
                genuine = stdlib_read(target, fmt, None) == data
            except Exception:
                pass
            if raw != data and not genuine:
                col.violation("neither-passed-through-nor-genuine-archive-" + fmt, dict(rep, observed=len(raw)))
        if sorted(os.listdir(work)) != [os.path.basename(target)]:
            col.violation("debris-roundtrip", dict(rep, observed=sorted(os.listdir(work))))
    except Exception as ex:
        col.violation("roundtrip-raises-" + type(ex).__name__ + "-" + fmt, {"abstract": {"mode": "roundtrip"},
                                                                            "concrete": {"format": fmt, "content": cname}, "observed": repr(ex)[:200]})
    finally:
        shutil.rmtree(work, ignore_errors=True)


def nested(col, fmt):
    """Two archives with the same base name in different directories, decompressed in nested (simultaneously alive)
    blocks: each block must see its own bytes, and nothing may be left behind."""
    import typhon.files.utils as U
    work = tempfile.mkdtemp(prefix="verif-c12-")
    try:
        tmp = os.path.join(work, "tmp")
        os.mkdir(tmp)
        paths = []
        for k, data in enumerate((b"first archive", b"second archive, other bytes")):
            d = os.path.join(work, "v%d" % k)
            os.mkdir(d)
            p = os.path.join(d, "scan.2018.bin." + fmt)
            stdlib_write(p, fmt, data, "scan.2018.bin")
            paths.append((p, data))
        rep = {"abstract": {"mode": "two decompress blocks alive at once", "same_base_name": True}, "concrete": {"format": fmt}}
        try:
            with U.decompress(paths[0][0], tmpdir=tmp) as a:
                with U.decompress(paths[1][0], tmpdir=tmp) as b:
                    got_b = open(b, "rb").read()
                    got_a_inner = open(a, "rb").read()
                got_a = open(a, "rb").read()
            col.count(1)
            if got_a != paths[0][1] or got_b != paths[1][1] or got_a_inner != paths[0][1]:
                col.violation("nested-decompress-wrong-bytes", dict(rep, observed=[got_a_inner[:20].decode("latin1"), got_b[:20].decode("latin1")]))
        except Exception as ex:
            col.violation("nested-decompress-raises-" + type(ex).__name__, dict(rep, observed=repr(ex)[:200]))
        if os.listdir(tmp):
            col.violation("debris-nested-decompress", dict(rep, observed=os.listdir(tmp)))
        col.nontrivial.add(("nested", fmt))
    finally:
        shutil.rmtree(work, ignore_errors=True)


def run(ctx):
    ctx.rule = ("TLC explores CompressDesign (one action per step of compress/decompress, a failing twin per I/O step, "
                "known/unknown suffix, absent/existing target) and prints every terminal state; each is replayed for 4 "
                "formats x 5 contents x 3 namings with the fault injected at that step (module-level shutil/tempfile/"
                "compressor table/open of typhon.files.utils, an exception in the with-body, a truncated archive). "
                "Non-trivial: every replay with a fault, a multi-chunk or pre-compressed content, or a non-plain name.")
    d = ctx.tlc_dir("files")
    res = ctx.tlc(d, "CompressDesign", "CompressDesign.cfg", workers=1, coverage=True, timeout=300)
    cov = res.coverage()
    never = [a for a in ("PassThrough", "MkTmpDir", "YieldTmp", "Body", "OpenTarget", "Copy", "RmTmpDir", "MkTmpFile",
                         "OpenArchive", "CopyOut", "DYield", "DBody", "Unlink") if cov.get(a, (0, 0))[1] == 0]
    if never:
        raise MachineryError("CompressDesign actions never taken: %s" % never)
    ctx.notes["design_action_coverage"] = {k: v for k, v in cov.items() if k[0].isupper() and k not in ("Init",)}
    cases = list(res.tagged("CASE"))
    if len(cases) != 30:
        raise MachineryError("expected 30 terminal states, got %d" % len(cases))
    ctx.exhaustive = True
    if ctx.tier != "quick":
        # further byte contents: sizes around the (forced) copy length of 7, around 4 KiB / 64 KiB buffers, and 300 KB
        rnd = __import__("random").Random(ctx.seed)
        for size in (2, 6, 7, 8, 13, 14, 15, 21, 4095, 4096, 4097, 65536, 65537, 300000):
            CONTENTS["random%d" % size] = bytes(rnd.getrandbits(8) for _ in range(size))
    items = []
    seq = 0
    for c in cases:
        for fmt in FORMATS:
            for cname in CONTENTS:
                for naming in ("plain", "dots", "fmtarg", "suffixchars"):
                    if naming == "fmtarg" and not (c["mode"] == "compress" and c["known"]):
                        continue
                    seq += 1
                    items.append((c, fmt, cname, naming, seq))
    pmap(ctx, replay, items)
    pmap(ctx, roundtrip, [(f, c, n) for f in FORMATS for c in CONTENTS for n in ("plain", "dots", "suffixchars", "uppercase", "mixedcase", "bare-format-name", "dot-format-name", "longest")])
    pmap(ctx, nested, FORMATS, procs=1)
    ctx.traces += len(items)
    ctx.sample({"terminal_state": cases[3], "replayed_as": {"format": "gz", "content": "chunks", "naming": "dots"}})
