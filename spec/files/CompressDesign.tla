--------------------------- MODULE CompressDesign ---------------------------
(* C12 -- typhon.files.compress / decompress as a state machine with a fault  *)
(* that strikes at one chosen step.  One action per step of the two context   *)
(* managers; every I/O step has a failing twin (fault = that step's name).    *)
(*                                                                            *)
(*  compress:   MkTmpDir -> Yield -> Body -> OpenTarget -> Copy -> Close       *)
(*              -> RmTmpDir -> done          (unknown suffix: pass-through)    *)
(*  decompress: MkTmpFile -> OpenArchive -> CopyOut -> Yield -> Body           *)
(*              -> Unlink -> done            (unknown suffix: pass-through)    *)
(*                                                                            *)
(* Properties (invariants below):                                             *)
(*   RoundTrip   no fault: the target is a genuine archive of the content      *)
(*   PassThrough unknown suffix: the given name is yielded, nothing else       *)
(*   NoDebris    however the block is left, no temporary file/dir remains      *)
(*   BodyAtomic  an exception in the caller's block leaves the target as it was*)
EXTENDS Integers, TLC, Json

Modes == {"compress", "decompress"}
CompressFaults == {"none", "mktmpdir", "body", "opentarget", "copy"}
DecompressFaults == {"none", "mktmpfile", "openarchive", "copyout", "body"}

VARIABLES mode, known, fault, target0, target, tmp, pc, raised, yielded
vars == <<mode, known, fault, target0, target, tmp, pc, raised, yielded>>
\* target: "absent" | "old" | "archive" | "partial" ; for decompress the archive is the input and never changes

Init == /\ mode \in Modes
        /\ known \in BOOLEAN
        /\ fault \in (IF mode = "compress" THEN CompressFaults ELSE DecompressFaults)
        /\ target0 \in (IF mode = "compress" THEN {"absent", "old"} ELSE {"archive"})
        /\ target = target0 /\ tmp = 0 /\ pc = "start" /\ raised = FALSE /\ yielded = "nothing"

Step(from, to) == pc = from /\ pc' = to
Fail(step) == fault = step
Keep(vs) == UNCHANGED vs

\* ---------------- pass-through ----------------
PassThrough == /\ ~known /\ pc = "start"
               /\ yielded' = "given-name"
               /\ pc' = IF fault = "body" THEN "raised" ELSE "done"
               /\ raised' = (fault = "body")
               /\ Keep(<<mode, known, fault, target0, target, tmp>>)

\* ---------------- compress ----------------
MkTmpDir == /\ mode = "compress" /\ known /\ pc = "start"
            /\ IF Fail("mktmpdir") THEN pc' = "raised" /\ raised' = TRUE /\ tmp' = tmp
               ELSE pc' = "yield" /\ raised' = FALSE /\ tmp' = tmp + 1
            /\ Keep(<<mode, known, fault, target0, target, yielded>>)
YieldTmp == /\ mode = "compress" /\ Step("yield", "body") /\ yielded' = "temp-name"
            /\ Keep(<<mode, known, fault, target0, target, tmp, raised>>)
Body == /\ mode = "compress" /\ pc = "body"
        /\ IF Fail("body") THEN pc' = "cleanup-raise" ELSE pc' = "opentarget"
        /\ Keep(<<mode, known, fault, target0, target, tmp, raised, yielded>>)
OpenTarget == /\ mode = "compress" /\ pc = "opentarget"
              /\ IF Fail("opentarget") THEN pc' = "cleanup-raise" /\ target' = target
                 ELSE pc' = "copy" /\ target' = "partial"                 \* opened for writing: truncated
              /\ Keep(<<mode, known, fault, target0, tmp, raised, yielded>>)
Copy == /\ mode = "compress" /\ pc = "copy"
        /\ IF Fail("copy") THEN pc' = "cleanup-raise" /\ target' = "partial"
           ELSE pc' = "cleanup" /\ target' = "archive"
        /\ Keep(<<mode, known, fault, target0, tmp, raised, yielded>>)
RmTmpDir == /\ mode = "compress" /\ pc \in {"cleanup", "cleanup-raise"}
            /\ tmp' = tmp - 1
            /\ pc' = IF pc = "cleanup" THEN "done" ELSE "raised"
            /\ raised' = (pc = "cleanup-raise")
            /\ Keep(<<mode, known, fault, target0, target, yielded>>)

\* ---------------- decompress ----------------
MkTmpFile == /\ mode = "decompress" /\ known /\ pc = "start"
             /\ IF Fail("mktmpfile") THEN pc' = "raised" /\ raised' = TRUE /\ tmp' = tmp
                ELSE pc' = "openarchive" /\ raised' = FALSE /\ tmp' = tmp + 1
             /\ Keep(<<mode, known, fault, target0, target, yielded>>)
OpenArchive == /\ mode = "decompress" /\ pc = "openarchive"
               /\ pc' = IF Fail("openarchive") THEN "unlink-raise" ELSE "copyout"
               /\ Keep(<<mode, known, fault, target0, target, tmp, raised, yielded>>)
CopyOut == /\ mode = "decompress" /\ pc = "copyout"
           /\ pc' = IF Fail("copyout") THEN "unlink-raise" ELSE "dyield"
           /\ Keep(<<mode, known, fault, target0, target, tmp, raised, yielded>>)
DYield == /\ mode = "decompress" /\ Step("dyield", "dbody") /\ yielded' = "temp-name"
          /\ Keep(<<mode, known, fault, target0, target, tmp, raised>>)
DBody == /\ mode = "decompress" /\ pc = "dbody"
         /\ pc' = IF Fail("body") THEN "unlink-raise" ELSE "unlink"
         /\ Keep(<<mode, known, fault, target0, target, tmp, raised, yielded>>)
Unlink == /\ mode = "decompress" /\ pc \in {"unlink", "unlink-raise"}
          /\ tmp' = tmp - 1
          /\ pc' = IF pc = "unlink" THEN "done" ELSE "raised"
          /\ raised' = (pc = "unlink-raise")
          /\ Keep(<<mode, known, fault, target0, target, yielded>>)

Next == PassThrough \/ MkTmpDir \/ YieldTmp \/ Body \/ OpenTarget \/ Copy \/ RmTmpDir
        \/ MkTmpFile \/ OpenArchive \/ CopyOut \/ DYield \/ DBody \/ Unlink
Spec == Init /\ [][Next]_vars /\ WF_vars(Next)

Finished == pc \in {"done", "raised"}
NoDebris == Finished => tmp = 0
BodyAtomic == (Finished /\ fault = "body") => target = target0
RoundTrip == (Finished /\ fault = "none" /\ known /\ mode = "compress") => target = "archive" /\ ~raised
PassThroughOK == (Finished /\ ~known) => yielded = "given-name" /\ target = target0 /\ tmp = 0
FaultsSurface == Finished => (raised <=> (fault # "none" /\ (known \/ fault = "body")))
Terminates == <>Finished

\* one replay case per terminal state
Emit == ~Finished \/ PrintT(<<"CASE", ToJson([mode |-> mode, known |-> known, fault |-> fault, target0 |-> target0,
                                               target |-> target, raised |-> raised, yielded |-> yielded, tmp |-> tmp])>>)
=============================================================================
