SPECIFICATION Spec
INVARIANT NoDebris
INVARIANT BodyAtomic
INVARIANT RoundTrip
INVARIANT PassThroughOK
INVARIANT FaultsSurface
INVARIANT Emit
PROPERTY Terminates
