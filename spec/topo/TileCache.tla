------------------------------ MODULE TileCache -----------------------------
(* C20 -- a tile is downloaded only if it is not already in the cache dir.    *)
EXTENDS Integers, Sequences, FiniteSets, TLC, Json
CONSTANTS Tiles, MaxLen
VARIABLES cache, hist, downloads
Init == cache \in SUBSET Tiles /\ hist = <<>> /\ downloads = <<>>       \* warm or cold start
Request(t) == /\ Len(hist) < MaxLen
              /\ hist' = Append(hist, t)
              /\ downloads' = IF t \in cache THEN downloads ELSE Append(downloads, t)
              /\ cache' = cache \cup {t}
Next == \E t \in Tiles : Request(t)
Spec == Init /\ [][Next]_<<cache, hist, downloads>>
\* every tile is downloaded at most once, and never when it was there from the start
AtMostOnce == \A i, j \in 1..Len(downloads) : downloads[i] = downloads[j] => i = j
Emit == Len(hist) < MaxLen \/ PrintT(<<"CASE", ToJson([hist |-> hist, downloads |-> downloads, final |-> cache])>>)
=============================================================================
