------------------------------ MODULE TileCache -----------------------------
(* C20 -- a tile is downloaded only if it is not already in the cache dir.    *)
(* A request is get_tile(t): if the tile's file is in the cache directory it   *)
(* is read from there, otherwise it is transferred and unpacked first.  A      *)
(* transfer may break off (FailingRequest): the caller gets the error, the     *)
(* tile is NOT in the cache afterwards (whatever partial file the transfer     *)
(* left behind), and a later request transfers it again.  The same holds when *)
(* the transfer completes but what arrived is not an archive ("garbage": a     *)
(* truncated body, a proxy's error page).                                      *)
EXTENDS Integers, Sequences, FiniteSets, TLC, Json
CONSTANTS Tiles, MaxLen
VARIABLES cache, hist, downloads
Init == cache \in SUBSET Tiles /\ hist = <<>> /\ downloads = <<>>       \* warm or cold start
\* hist entries: <<tile, "ok" | "fail" | "garbage">>;  downloads: every transfer that was STARTED, in order
Request(t) == /\ Len(hist) < MaxLen
              /\ hist' = Append(hist, <<t, "ok">>)
              /\ downloads' = IF t \in cache THEN downloads ELSE Append(downloads, t)
              /\ cache' = cache \cup {t}
FailingRequest(t, how) ==
                     /\ Len(hist) < MaxLen /\ t \notin cache
                     /\ hist' = Append(hist, <<t, how>>)
                     /\ downloads' = Append(downloads, t)
                     /\ cache' = cache
Next == \E t \in Tiles : Request(t) \/ \E how \in {"fail", "garbage"} : FailingRequest(t, how)
Spec == Init /\ [][Next]_<<cache, hist, downloads>>
\* a transfer is started only for a tile that is not in the cache:
\* number of transfers of t = number of failing requests for t + (1 if a successful request found it missing)
Transfers(t) == Cardinality({i \in 1..Len(downloads) : downloads[i] = t})
Fails(t) == Cardinality({i \in 1..Len(hist) : hist[i][1] = t /\ hist[i][2] # "ok"})
AtMostOnce == \A t \in Tiles : Transfers(t) <= Fails(t) + 1
Emit == Len(hist) < MaxLen \/ PrintT(<<"CASE", ToJson([hist |-> hist, downloads |-> downloads, final |-> cache])>>)
=============================================================================
