------------------------------ MODULE SrtmProps -----------------------------
(* C20 -- SRTM30 mosaics in integer arithmetic.                               *)
(* Unit = 1/240 degree = half a cell.  "v" counts units southwards from 90 N,  *)
(* "h" counts units eastwards from 180 W.  Cell row r spans v in [2r, 2r+2],   *)
(* cell column c spans h in [2c, 2c+2].  A rectangle is <<v0, v1, h0, h1>> with *)
(* v0 < v1 (v0 = northern edge) and h0 < h1.                                  *)
(* Tiles: 3 latitude bands of 6000 rows x 9 longitude bands of 4800 columns.   *)
EXTENDS Integers, Sequences, FiniteSets, TLC, Json

TileRows == 6000
TileCols == 4800
FloorDiv2(x) == x \div 2                       \* x >= 0
CeilDiv2(x) == (x + 1) \div 2

\* the block of cells that covers the rectangle and extends beyond it by less than one cell
RowTop(rect) == FloorDiv2(rect[1])
RowBot(rect) == CeilDiv2(rect[2]) - 1
ColL(rect) == FloorDiv2(rect[3])
ColR(rect) == CeilDiv2(rect[4]) - 1

TileOf(r, c) == (r \div TileRows) * 9 + (c \div TileCols)           \* 0..26, numbered like the tile table
\* synthetic tile content used by the harness: depends on the global cell AND on the tile it is stored in
Pixel(r, c) == (7 * r + 3 * c + 1000 * TileOf(r, c)) % 30011

\* tiles whose area intersects the rectangle with positive area
TileBox(t) == <<2 * TileRows * (t \div 9), 2 * TileRows * ((t \div 9) + 1), 2 * TileCols * (t % 9), 2 * TileCols * ((t % 9) + 1)>>
Max2(a, b) == IF a >= b THEN a ELSE b
Min2(a, b) == IF a <= b THEN a ELSE b
Overlaps(rect, t) == LET b == TileBox(t) IN Max2(rect[1], b[1]) < Min2(rect[2], b[2]) /\ Max2(rect[3], b[3]) < Min2(rect[4], b[4])
Tiles(rect) == {t \in 0..26 : Overlaps(rect, t)}

\* res = [r0, r1, nrows, c0, c1, ncols, samples : set of <<r, c, value>>]
ElevOK(rect, res) ==
    /\ res.r0 = RowTop(rect) /\ res.r1 = RowBot(rect) /\ res.nrows = RowBot(rect) - RowTop(rect) + 1 /\ res.nrows >= 1
    /\ res.c0 = ColL(rect) /\ res.c1 = ColR(rect) /\ res.ncols = ColR(rect) - ColL(rect) + 1 /\ res.ncols >= 1
    /\ \A s \in res.samples : s[3] = Pixel(s[1], s[2])

\* a block covers the rectangle and overshoots by less than one cell (2 units) on each side
CoverLawOf(rect) == /\ 2 * RowTop(rect) <= rect[1] /\ rect[1] - 2 * RowTop(rect) < 2
                  /\ 2 * (RowBot(rect) + 1) >= rect[2] /\ 2 * (RowBot(rect) + 1) - rect[2] < 2
                  /\ 2 * ColL(rect) <= rect[3] /\ rect[3] - 2 * ColL(rect) < 2
                  /\ 2 * (ColR(rect) + 1) >= rect[4] /\ 2 * (ColR(rect) + 1) - rect[4] < 2
                  /\ RowTop(rect) <= RowBot(rect) /\ ColL(rect) <= ColR(rect)

CONSTANTS Vs, Hs            \* candidate corner coordinates (units)
VARIABLE rect
Init == rect \in {<<a, b, c, d>> \in Vs \X Vs \X Hs \X Hs : a < b /\ c < d}
Next == UNCHANGED rect
CoverLaw == CoverLawOf(rect)
Emit == PrintT(<<"CASE", ToJson([rect |-> rect, r0 |-> RowTop(rect), r1 |-> RowBot(rect), c0 |-> ColL(rect), c1 |-> ColR(rect),
                                  tiles |-> Tiles(rect),
                                  corners |-> {<<r, c, Pixel(r, c)>> : r \in {RowTop(rect), RowBot(rect)}, c \in {ColL(rect), ColR(rect)}}])>>)
=============================================================================
