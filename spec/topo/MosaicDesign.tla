------------------------------ MODULE MosaicDesign --------------------------
(* C20 -- SRTM30.elevation's assembly loop on a SCALED world: 2 latitude bands  *)
(* x 3 longitude bands of tiles with TR x TC cells each, coordinates in units   *)
(* of half a cell (as in SrtmProps).  The loop, one action per tile:            *)
(*   source mask  = cells of the tile whose CENTRE lies in the half-open block   *)
(*                  [top, bottom) x [left, right)                                *)
(*   dest mask    = cells of the block whose centre lies within the tile bounds  *)
(*   elevation[dest] = dem[source]   (both masks enumerated in row-major order)   *)
(* TLC checks for every rectangle of the scaled world that at the end every cell  *)
(* of the block has been written exactly once and holds the pixel of its own      *)
(* tile cell - no row or column duplicated, dropped, or left at the initial 0.    *)
EXTENDS Integers, Sequences, FiniteSets, TLC

CONSTANTS TR, TC          \* cells per tile (rows, columns); world = 2 x 3 tiles
WorldRows == 2 * TR
WorldCols == 3 * TC
FloorDiv2(x) == x \div 2
CeilDiv2(x) == (x + 1) \div 2
TileOf(r, c) == (r \div TR) * 3 + (c \div TC)
Pixel(r, c) == 1 + 100 * TileOf(r, c) + 10 * (r % TR) + (c % TC)            \* what tile TileOf stores at its local cell; never 0
TileBox(t) == <<2 * TR * (t \div 3), 2 * TR * ((t \div 3) + 1), 2 * TC * (t % 3), 2 * TC * ((t % 3) + 1)>>

VARIABLES rect, elev, writes, todo
vars == <<rect, elev, writes, todo>>

\* block of whole cells covering the rectangle (SrtmProps), and its edges in units
R0 == FloorDiv2(rect[1])   R1 == CeilDiv2(rect[2]) - 1
C0 == FloorDiv2(rect[3])   C1 == CeilDiv2(rect[4]) - 1
Block == (R0..R1) \X (C0..C1)
BTop == 2 * R0   BBot == 2 * (R1 + 1)   BLeft == 2 * C0   BRight == 2 * (C1 + 1)
Max2(a, b) == IF a >= b THEN a ELSE b
Min2(a, b) == IF a <= b THEN a ELSE b
\* get_tiles on the block edges: positive-area overlap
Needed == {t \in 0..5 : LET b == TileBox(t) IN Max2(BTop, b[1]) < Min2(BBot, b[2]) /\ Max2(BLeft, b[3]) < Min2(BRight, b[4])}

Init == /\ rect \in {<<a, b, c, d>> \in (0..2*WorldRows) \X (0..2*WorldRows) \X (0..2*WorldCols) \X (0..2*WorldCols) : a < b /\ c < d}
        /\ elev = [cell \in Block |-> 0] /\ writes = [cell \in Block |-> 0] /\ todo = Needed

\* centre of global cell (r, c) in units: (2r + 1, 2c + 1)
ProcessTile(t) ==
    /\ t \in todo
    /\ LET b == TileBox(t)
           \* source: tile cells (global indices) whose centre is inside the block's half-open extent
           src == {cell \in ((TR * (t \div 3))..(TR * (t \div 3) + TR - 1)) \X ((TC * (t % 3))..(TC * (t % 3) + TC - 1)) :
                      BTop <= 2 * cell[1] + 1 /\ 2 * cell[1] + 1 < BBot /\ BLeft <= 2 * cell[2] + 1 /\ 2 * cell[2] + 1 < BRight}
           \* destination: block cells whose centre is inside the tile's half-open bounds
           dst == {cell \in Block : b[1] <= 2 * cell[1] + 1 /\ 2 * cell[1] + 1 < b[2] /\ b[3] <= 2 * cell[2] + 1 /\ 2 * cell[2] + 1 < b[4]}
           \* boolean-mask assignment pairs the k-th True of dst with the k-th True of src in row-major order
           Ord(S, cell) == Cardinality({o \in S : o[1] < cell[1] \/ (o[1] = cell[1] /\ o[2] < cell[2])})
           srcAt(k) == CHOOSE cell \in src : Ord(src, cell) = k
       IN /\ Cardinality(src) = Cardinality(dst)                      \* otherwise numpy raises a shape error
          /\ elev' = [cell \in Block |-> IF cell \in dst THEN Pixel(srcAt(Ord(dst, cell))[1], srcAt(Ord(dst, cell))[2]) ELSE elev[cell]]
          /\ writes' = [cell \in Block |-> IF cell \in dst THEN writes[cell] + 1 ELSE writes[cell]]
    /\ todo' = todo \ {t}
    /\ UNCHANGED rect

Next == \E t \in todo : ProcessTile(t)
Spec == Init /\ [][Next]_vars

Seamless == todo = {} => \A cell \in Block : writes[cell] = 1 /\ elev[cell] = Pixel(cell[1], cell[2])
NeverTwice == \A cell \in Block : writes[cell] <= 1
\* the loop never gets stuck on a mask-size mismatch
NoShapeError == \A t \in todo : ENABLED ProcessTile(t)
=============================================================================
