----------------------------- MODULE CollocCases ----------------------------
(* C04 -- generator of replay cases: two small datasets and, for every         *)
(* parameter combination of the bound, the oracle pair set with |dt| and the   *)
(* distance class of every pair.                                              *)
EXTENDS CollocProps, TLC, Json, Randomization

CONSTANTS T, MaxP, NSample, Ks, Is

Pts == (0..T-1) \X ((0..N-1) \cup {-1})
Data(n) == UNION {[1..m -> Pts] : m \in 1..n}
Wins == {<<0, T-1>>, <<1, T-2>>, <<0, 1>>}

VARIABLES P, S
Init == IF NSample = 0 THEN P \in Data(MaxP) /\ S \in Data(MaxP)
        ELSE P \in RandomSubset(NSample, Data(MaxP)) /\ S \in RandomSubset(NSample, Data(MaxP))
Next == UNCHANGED <<P, S>>

Row(I, k, w) == LET E == Pairs(P, S, I, k, w[1], w[2])
                IN <<I, k, w[1], w[2],
                     {<<p[1], p[2], Abs(P[p[1]][1] - S[p[2]][1]), G!RingDist(P[p[1]][2], S[p[2]][2])>> : p \in E}>>
SwapInv == \A I \in Is, k \in Ks, w \in Wins : SwapLaw(P, S, I, k, w[1], w[2])
Emit == PrintT(<<"CASE", ToJson([P |-> P, S |-> S,
                                  rows |-> {Row(I, k, w) : I \in Is, k \in Ks, w \in Wins}])>>)
=============================================================================
