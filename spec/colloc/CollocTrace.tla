----------------------------- MODULE CollocTrace ----------------------------
(* C04 -- trace validation of recorded Collocator sessions (histories):       *)
(*   {tid, N, calls: [{P, S, I, k, ws, we, ok, none, pairs, dt, cls}, ..]}      *)
(* Every call of a history is judged on its own arguments only: that IS the    *)
(* "any history of earlier calls" clause.                                      *)
EXTENDS Integers, Sequences, FiniteSets, TLC, Json, IOUtils

Traces == ndJsonDeserialize(IOEnv.TRACE_FILE)
VARIABLE t
Init == t \in 1..Len(Traces)
Next == UNCHANGED t

Pt(s) == [i \in 1..Len(s) |-> <<s[i][1], s[i][2]>>]
CallOK(tr, c) == LET C == INSTANCE CollocProps WITH N <- tr.N
                 IN c.ok /\ C!ResultOK(Pt(c.P), Pt(c.S), c.I, c.k, c.ws, c.we,
                                       [none |-> c.none, pairs |-> Pt(c.pairs), dt |-> c.dt, cls |-> c.cls])
FirstBad(tr) == LET bad == {n \in 1..Len(tr.calls) : ~CallOK(tr, tr.calls[n])}
                IN IF bad = {} THEN 0 ELSE CHOOSE n \in bad : \A m \in bad : n <= m
Verdict == LET tr == Traces[t] b == FirstBad(tr)
           IN IF b = 0 THEN PrintT(<<"ACCEPT", tr.tid>>) ELSE PrintT(<<"REJECT", tr.tid, b>>)
=============================================================================
