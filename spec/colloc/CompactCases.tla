----------------------------- MODULE CompactCases ---------------------------
(* C13 -- all compact datasets with <= MaxPairs distinct pairs over <= 3 x 3   *)
(* stored points that satisfy CompactInv, with distinguishable values and a    *)
(* NaN pattern; the oracle expansions / collapses are printed; the concat law  *)
(* is model-checked on every ordered pair of a sample.                         *)
EXTENDS CompactProps, TLC, Json, Randomization

CONSTANTS MaxPairs, NSample

PairSeqs == UNION {[1..n -> (1..3) \X (1..3)] : n \in 1..MaxPairs}
Distinct(s) == \A i, j \in 1..Len(s) : i # j => s[i] # s[j]
NanPatterns == {0, 1, 2, 3}
Mk(ps, pat) ==
    LET np == Max({ps[k][1] : k \in 1..Len(ps)})
        ns == Max({ps[k][2] : k \in 1..Len(ps)})
    IN [np |-> np, ns |-> ns, pairs |-> ps,
        pv |-> [i \in 1..np |-> IF pat = 3 /\ i = 1 THEN NaN ELSE 10 * i],
        sv |-> [j \in 1..ns |-> <<IF (pat = 1 /\ j = 1) \/ (pat = 2 /\ j <= 2) THEN NaN ELSE j,
                                   IF pat = 2 /\ j = 1 THEN NaN ELSE 7 - 2 * j>>]]
All == {Mk(ps, pat) : ps \in {s \in PairSeqs : Distinct(s)}, pat \in NanPatterns}
Valid == {c \in All : CompactInv(c)}

VARIABLES a, b
Init == a \in (IF NSample = 0 THEN Valid ELSE RandomSubset(NSample, Valid))
        /\ b \in RandomSubset(3, Valid)
Next == UNCHANGED <<a, b>>

ConcatInv == ConcatLaw(a, b)
ExpandInv == Len(Expand(a)) = Len(a.pairs) /\ CompactInv(a)
Repr(c) == [np |-> c.np, ns |-> c.ns, pairs |-> c.pairs, pv |-> c.pv, sv |-> c.sv,
            expand |-> Expand(c), colp |-> CollapsePrimary(c), cols |-> CollapseSecondary(c)]
Emit == PrintT(<<"CASE", ToJson([a |-> Repr(a), b |-> Repr(b), ab |-> Expand(Concat2(a, b))])>>)
=============================================================================
