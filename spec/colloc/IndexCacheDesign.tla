--------------------------- MODULE IndexCacheDesign -------------------------
(* C04 -- the spatial-index cache of a reused Collocator, as the code decides  *)
(* it (_choose_points_to_build_index / _build_spatial_index / row swap).        *)
(* Datasets are identified by ids; Size gives their number of points and        *)
(* Same(a, b) is the test the implementation uses to decide that the cached      *)
(* index "still fits" the new points.  With Same = equality the index always     *)
(* holds exactly the points it is queried for (IndexFresh); with a coarser Same  *)
(* (np.allclose: equal up to 1e-5 relative) TLC exhibits the history in which a  *)
(* stale index answers - the defect repaired in /repo (DESIGN.md 7b).            *)
EXTENDS Integers, Sequences, FiniteSets, TLC

CONSTANTS Datasets, Size, SameClass, MF, MaxCalls
\* SameClass: dataset -> class id; Same(a, b) iff equal classes.  Identity classes = exact comparison.
Same(a, b) == SameClass[a] = SameClass[b]

VARIABLES index,     \* 0 = none, else the dataset whose points the cached tree was built from
          iwp,       \* index_with_primary of the last call
          calls,     \* history of <<P, S>>
          lastBuild, \* which dataset's points the LAST call wanted in the tree
          swapped    \* whether the last call swapped the result rows
vars == <<index, iwp, calls, lastBuild, swapped>>

Init == index = 0 /\ iwp = FALSE /\ calls = <<>> /\ lastBuild = 0 /\ swapped = FALSE

Cached(d) == index # 0 /\ Same(d, index)
UsePrimary(P, S) ==
    IF Size[P] > Size[S] * MF THEN TRUE
    ELSE IF Size[S] > Size[P] * MF THEN FALSE
    ELSE IF iwp /\ Cached(P) THEN TRUE
    ELSE IF ~iwp /\ Cached(S) THEN FALSE
    ELSE Size[P] > Size[S]

Collocate(P, S) ==
    /\ Len(calls) < MaxCalls
    /\ LET up == UsePrimary(P, S)
           build == IF up THEN P ELSE S
       IN /\ index' = IF Cached(build) THEN index ELSE build          \* reuse, or build a new tree
          /\ iwp' = up /\ lastBuild' = build /\ swapped' = ~up
    /\ calls' = Append(calls, <<P, S>>)

Next == \E P \in Datasets, S \in Datasets : Collocate(P, S)
Spec == Init /\ [][Next]_vars

\* the tree that answers the query holds exactly the points of the dataset it stands for
IndexFresh == calls # <<>> => index = lastBuild
\* rows are swapped back exactly when the secondary was indexed: pairs come out as <<primary, secondary>>
RowsRight == calls # <<>> => (swapped <=> ~iwp)
=============================================================================
