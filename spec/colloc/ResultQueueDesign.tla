-------------------------- MODULE ResultQueueDesign -------------------------
(* C05 -- the result queue between the worker processes of collocate_filesets *)
(* and the parent, modelled the way multiprocessing.Queue(maxsize=K) and the   *)
(* parent loop really work:                                                    *)
(*   child c:  Put   - acquire the bounded semaphore, append to its LOCAL buffer *)
(*             Feed  - the child's feeder thread moves the oldest buffered item  *)
(*                     into the shared pipe                                      *)
(*             Exit  - only after everything is produced AND the buffer is flushed *)
(*             Crash - puts the ProcessCrashed marker and then exits like above    *)
(*   parent:   PollAlive - snapshot of the children that are alive              *)
(*             Get       - while the pipe is not empty: take one item (releases   *)
(*                         the semaphore), yield it unless it is None / a marker  *)
(*             the outer loop ends when the LAST snapshot was empty and the pipe  *)
(*             has been drained once more                                        *)
(* Conservation: at termination the bag of yielded results equals the bag of    *)
(* produced non-None results; NoDup: nothing is yielded twice; termination      *)
(* under weak fairness of every step.                                           *)
EXTENDS Integers, Sequences, FiniteSets, TLC

CONSTANTS K,            \* number of child processes
          R,            \* results per child (the j-th result of child c is <<c, j>>)
          Nones,        \* set of <<c, j>> that are None results (no collocations found): consumed, not yielded
          Crashers      \* children that crash after their first result

Children == 1..K
VARIABLES produced,     \* c -> number of results put so far
          buffer,       \* c -> sequence of items still in the child's local buffer
          pipe,         \* sequence of items in the shared pipe
          sem,          \* free slots of the bounded semaphore
          alive,        \* set of live children
          crashed,      \* children that have put their crash marker
          ppc,          \* parent program counter: "poll" | "drain" | "done"
          snapshot,     \* result of the last PollAlive
          yielded       \* sequence of results handed to the caller
vars == <<produced, buffer, pipe, sem, alive, crashed, ppc, snapshot, yielded>>

Init == /\ produced = [c \in Children |-> 0] /\ buffer = [c \in Children |-> <<>>] /\ pipe = <<>>
        /\ sem = K /\ alive = Children /\ crashed = {} /\ ppc = "poll" /\ snapshot = Children /\ yielded = <<>>

Goal(c) == IF c \in Crashers THEN 1 ELSE R
Put(c) == /\ c \in alive /\ c \notin crashed /\ produced[c] < Goal(c) /\ sem > 0
          /\ sem' = sem - 1
          /\ produced' = [produced EXCEPT ![c] = @ + 1]
          /\ buffer' = [buffer EXCEPT ![c] = Append(@, <<c, produced[c] + 1>>)]
          /\ UNCHANGED <<pipe, alive, crashed, ppc, snapshot, yielded>>
CrashPut(c) == /\ c \in alive /\ c \in Crashers /\ c \notin crashed /\ produced[c] = Goal(c) /\ sem > 0
               /\ sem' = sem - 1 /\ crashed' = crashed \cup {c}
               /\ buffer' = [buffer EXCEPT ![c] = Append(@, <<c, 0>>)]          \* <<c, 0>> is the ProcessCrashed marker
               /\ UNCHANGED <<produced, pipe, alive, ppc, snapshot, yielded>>
Feed(c) == /\ buffer[c] # <<>>
           /\ pipe' = Append(pipe, Head(buffer[c]))
           /\ buffer' = [buffer EXCEPT ![c] = Tail(@)]
           /\ UNCHANGED <<produced, sem, alive, crashed, ppc, snapshot, yielded>>
Finished(c) == produced[c] = Goal(c) /\ (c \in Crashers => c \in crashed)
Exit(c) == /\ c \in alive /\ Finished(c) /\ buffer[c] = <<>>         \* a process joins its feeder thread before it exits
           /\ alive' = alive \ {c}
           /\ UNCHANGED <<produced, buffer, pipe, sem, crashed, ppc, snapshot, yielded>>

PollAlive == /\ ppc = "poll"
             /\ snapshot' = alive /\ ppc' = "drain"
             /\ UNCHANGED <<produced, buffer, pipe, sem, alive, crashed, yielded>>
Get == /\ ppc = "drain" /\ pipe # <<>>
       /\ LET item == Head(pipe) IN
             /\ pipe' = Tail(pipe) /\ sem' = sem + 1
             /\ yielded' = IF item[2] = 0 \/ item \in Nones THEN yielded ELSE Append(yielded, item)
       /\ UNCHANGED <<produced, buffer, alive, crashed, ppc, snapshot>>
EndDrain == /\ ppc = "drain" /\ pipe = <<>>                          \* `while not results.empty()` falls through
            /\ ppc' = IF snapshot = {} THEN "done" ELSE "poll"
            /\ UNCHANGED <<produced, buffer, pipe, sem, alive, crashed, snapshot, yielded>>

Next == (\E c \in Children : Put(c) \/ CrashPut(c) \/ Feed(c) \/ Exit(c)) \/ PollAlive \/ Get \/ EndDrain
Spec == Init /\ [][Next]_vars
FairSpec == Spec /\ WF_vars(PollAlive) /\ WF_vars(Get) /\ WF_vars(EndDrain)
                 /\ \A c \in Children : WF_vars(Put(c)) /\ WF_vars(CrashPut(c)) /\ WF_vars(Feed(c)) /\ WF_vars(Exit(c))

\* refinement onto ResultQueueInd (sequences abstracted to sets; "got" = everything put that is neither buffered nor in
\* the pipe), whose inductive invariant Apalache discharges for all K, R <= 4, all None sets and crashers at once
SeqSet(q) == {q[i] : i \in 1..Len(q)}
BufferedBar == UNION {SeqSet(buffer[c]) : c \in Children}
PutBar == {x \in Children \X (0..R) : (x[2] >= 1 /\ x[2] <= produced[x[1]]) \/ (x[2] = 0 /\ x[1] \in crashed)}
RQI == INSTANCE ResultQueueInd WITH produced <- [c \in 1..4 |-> IF c \in Children THEN produced[c] ELSE 0],
                                    buffered <- BufferedBar, pipe <- SeqSet(pipe),
                                    got <- PutBar \ (BufferedBar \cup SeqSet(pipe))
RefinesInd == RQI!Spec

AllProduced == {<<c, j>> : c \in Children, j \in 1..R} \ Nones
Expected == {<<c, j>> \in AllProduced : j <= Goal(c)}
SeqRange(s) == {s[i] : i \in 1..Len(s)}
NoDup == \A i, j \in 1..Len(yielded) : yielded[i] = yielded[j] => i = j
OnlyProduced == SeqRange(yielded) \subseteq Expected
Conservation == ppc = "done" => SeqRange(yielded) = Expected
SemBound == sem >= 0 /\ sem <= K
\* per-child FIFO: results of one child are yielded in production order
ChildFifo == \A i, j \in 1..Len(yielded) : (i < j /\ yielded[i][1] = yielded[j][1]) => yielded[i][2] < yielded[j][2]
Terminates == <>(ppc = "done")
=============================================================================
