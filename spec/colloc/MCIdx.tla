---- MODULE MCIdx ----
EXTENDS IndexCacheDesign
mcSize == [d \in 1..4 |-> IF d = 4 THEN 30 ELSE IF d = 3 THEN 2 ELSE 1]
mcExact == [d \in 1..4 |-> d]
mcAllclose == [d \in 1..4 |-> IF d = 2 THEN 1 ELSE d]      \* datasets 1 and 2 are np.allclose but not equal
====
