INIT Init
NEXT Next
INVARIANT Verdict
