----------------------------- MODULE CollocProps ----------------------------
(* C04 -- what Collocator.collocate must report.                              *)
(* A point is <<t, pos>>: an integer time tick and a ring position 0..N-1, or  *)
(* pos = -1 for a point whose latitude/longitude is NaN.  A dataset is a       *)
(* sequence of points; a point's identity is its index in that sequence (the   *)
(* harness attaches it as an `id` variable and reads it back from the result). *)
(* Parameters: I  max_interval in ticks (strict), -1 = absent                  *)
(*             k  radius class (inclusive)                                     *)
(*             ws, we  closed time window (start, end): both points of a pair  *)
(*                     lie in it -- also when no max_interval is given          *)
EXTENDS Integers, Sequences, FiniteSets

CONSTANT N
G == INSTANCE GeoIndexProps

Abs(x) == IF x < 0 THEN -x ELSE x
Near(a, b, k) == a[2] >= 0 /\ b[2] >= 0 /\ G!RingDist(a[2], b[2]) <= k
Close(a, b, I) == I < 0 \/ Abs(a[1] - b[1]) < I
InWin(a, ws, we) == ws <= a[1] /\ a[1] <= we

Pairs(P, S, I, k, ws, we) ==
    {p \in (1..Len(P)) \X (1..Len(S)) :
        /\ Near(P[p[1]], S[p[2]], k) /\ Close(P[p[1]], S[p[2]], I)
        /\ InWin(P[p[1]], ws, we) /\ InWin(S[p[2]], ws, we)}

SeqRange(s) == {s[i] : i \in 1..Len(s)}

\* r = [none |-> BOOLEAN, pairs |-> Seq(<<i, j>>), dt |-> Seq(ticks), cls |-> Seq(distance class)]
ResultOK(P, S, I, k, ws, we, r) ==
    LET E == Pairs(P, S, I, k, ws, we) IN
    IF E = {} THEN r.none
    ELSE /\ ~r.none
         /\ Len(r.pairs) = Cardinality(E) /\ SeqRange(r.pairs) = E            \* each pair exactly once
         /\ Len(r.dt) = Len(r.pairs) /\ Len(r.cls) = Len(r.pairs)
         /\ \A n \in 1..Len(r.pairs) :
               /\ r.dt[n] = Abs(P[r.pairs[n][1]][1] - S[r.pairs[n][2]][1])
               /\ r.cls[n] = G!RingDist(P[r.pairs[n][1]][2], S[r.pairs[n][2]][2])

\* swapping the roles transposes the answer (a theorem of the definition, checked by TLC in CollocCases)
Transpose(E) == {<<p[2], p[1]>> : p \in E}
SwapLaw(P, S, I, k, ws, we) == Pairs(S, P, I, k, ws, we) = Transpose(Pairs(P, S, I, k, ws, we))
=============================================================================
