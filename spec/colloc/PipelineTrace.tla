---------------------------- MODULE PipelineTrace ---------------------------
(* C05 -- validation of recorded result-queue logs of collocate_filesets runs *)
(*   {tid, ev: [[kind, child, seq], ..], expected: [[p, s], ..], got: [[p, s], ..]}  *)
(* kind "put" / "get"; seq is the per-child sequence number of the item.        *)
(* The log must be explainable by ResultQueueDesign's observable projection:    *)
(* every put is got exactly once, after it was put, per child in FIFO order;     *)
(* and the collocations handed to the caller are exactly the expected bag.       *)
EXTENDS Integers, Sequences, FiniteSets, TLC, Json, IOUtils
Traces == ndJsonDeserialize(IOEnv.TRACE_FILE)
VARIABLE t
Init == t \in 1..Len(Traces)
Next == UNCHANGED t
Pos(ev, k, c, s) == {p \in 1..Len(ev) : ev[p][1] = k /\ ev[p][2] = c /\ ev[p][3] = s}
Items(ev) == {<<ev[p][2], ev[p][3]>> : p \in 1..Len(ev)}
QueueOK(ev) ==
    \A it \in Items(ev) :
        /\ Cardinality(Pos(ev, "put", it[1], it[2])) = 1
        /\ Cardinality(Pos(ev, "get", it[1], it[2])) = 1
        /\ \A p \in Pos(ev, "put", it[1], it[2]), g \in Pos(ev, "get", it[1], it[2]) : p < g
        /\ \A it2 \in Items(ev) : (it2[1] = it[1] /\ it2[2] < it[2]) =>
               \A g1 \in Pos(ev, "get", it2[1], it2[2]), g2 \in Pos(ev, "get", it[1], it[2]) : g1 < g2
BagOK(exp, got) == /\ Len(got) = Len(exp)
                   /\ {got[i] : i \in 1..Len(got)} = {exp[i] : i \in 1..Len(exp)}
                   /\ Cardinality({got[i] : i \in 1..Len(got)}) = Len(got)         \* each pair once
Failing(tr) == IF ~QueueOK(tr.ev) THEN "QueueOK" ELSE IF ~BagOK(tr.expected, tr.got) THEN "BagOK" ELSE "ok"
Verdict == LET tr == Traces[t] v == Failing(tr)
           IN IF v = "ok" THEN PrintT(<<"ACCEPT", tr.tid>>) ELSE PrintT(<<"REJECT", tr.tid, v>>)
=============================================================================
