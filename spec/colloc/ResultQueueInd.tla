--------------------------- MODULE ResultQueueInd ---------------------------
(* C05 -- ResultQueueDesign with its sequences abstracted to sets (the order   *)
(* of the pipe is irrelevant for conservation), and an INDUCTIVE invariant     *)
(* that Apalache discharges for every number of children K <= MaxK and every   *)
(* number of results per child R <= MaxR at once, any set of None results and  *)
(* any set of crashing children:                                               *)
(*   every produced item is in exactly one of: a child's buffer, the pipe,     *)
(*   the parent's hands; the semaphore counts the items in flight; a child     *)
(*   that is gone has produced and flushed everything; the parent's snapshot   *)
(*   over-approximates the living children -- hence when the parent stops      *)
(*   (empty snapshot, pipe drained) everything has been received, once.        *)
EXTENDS Integers, FiniteSets

CONSTANTS
    \* @type: Int;
    K,
    \* @type: Int;
    R,
    \* @type: Set(<<Int, Int>>);
    Nones,
    \* @type: Set(Int);
    Crashers

MaxK == 4
MaxR == 4
AllItems == (1..MaxK) \X (0..MaxR)
ConstInit == /\ K \in 1..MaxK /\ R \in 1..MaxR
             /\ Nones \in SUBSET ((1..MaxK) \X (1..MaxR)) /\ Crashers \in SUBSET (1..MaxK)

VARIABLES
    \* @type: Int -> Int;
    produced,
    \* @type: Set(<<Int, Int>>);
    buffered,
    \* @type: Set(<<Int, Int>>);
    pipe,
    \* @type: Set(<<Int, Int>>);
    got,
    \* @type: Int;
    sem,
    \* @type: Set(Int);
    alive,
    \* @type: Set(Int);
    crashed,
    \* @type: Str;
    ppc,
    \* @type: Set(Int);
    snapshot

Children == {c \in 1..MaxK : c <= K}
Goal(c) == IF c \in Crashers THEN 1 ELSE R
Finished(c) == produced[c] = Goal(c) /\ (c \in Crashers => c \in crashed)
BufferOf(c) == {x \in buffered : x[1] = c}

Init == /\ produced = [c \in 1..MaxK |-> 0] /\ buffered = {} /\ pipe = {} /\ got = {}
        /\ sem = K /\ alive = Children /\ crashed = {} /\ ppc = "poll" /\ snapshot = Children

Put(c) == /\ c \in alive /\ c \notin crashed /\ produced[c] < Goal(c) /\ sem > 0
          /\ sem' = sem - 1
          /\ produced' = [produced EXCEPT ![c] = @ + 1]
          /\ buffered' = buffered \cup {<<c, produced[c] + 1>>}
          /\ UNCHANGED <<pipe, got, alive, crashed, ppc, snapshot>>
CrashPut(c) == /\ c \in alive /\ c \in Crashers /\ c \notin crashed /\ produced[c] = Goal(c) /\ sem > 0
               /\ sem' = sem - 1 /\ crashed' = crashed \cup {c}
               /\ buffered' = buffered \cup {<<c, 0>>}
               /\ UNCHANGED <<produced, pipe, got, alive, ppc, snapshot>>
Feed(x) == /\ x \in buffered
           /\ pipe' = pipe \cup {x} /\ buffered' = buffered \ {x}
           /\ UNCHANGED <<produced, got, sem, alive, crashed, ppc, snapshot>>
Exit(c) == /\ c \in alive /\ Finished(c) /\ BufferOf(c) = {}
           /\ alive' = alive \ {c}
           /\ UNCHANGED <<produced, buffered, pipe, got, sem, crashed, ppc, snapshot>>
PollAlive == /\ ppc = "poll"
             /\ snapshot' = alive /\ ppc' = "drain"
             /\ UNCHANGED <<produced, buffered, pipe, got, sem, alive, crashed>>
Get(x) == /\ ppc = "drain" /\ x \in pipe
          /\ pipe' = pipe \ {x} /\ got' = got \cup {x} /\ sem' = sem + 1
          /\ UNCHANGED <<produced, buffered, alive, crashed, ppc, snapshot>>
EndDrain == /\ ppc = "drain" /\ pipe = {}
            /\ ppc' = IF snapshot = {} THEN "done" ELSE "poll"
            /\ UNCHANGED <<produced, buffered, pipe, got, sem, alive, crashed, snapshot>>

Next == \/ \E c \in 1..MaxK : c \in Children /\ (Put(c) \/ CrashPut(c) \/ Exit(c))
        \/ \E x \in AllItems : Feed(x) \/ Get(x)
        \/ PollAlive \/ EndDrain

vars == <<produced, buffered, pipe, got, sem, alive, crashed, ppc, snapshot>>
Spec == Init /\ [][Next]_vars

\* everything child c has put so far (its results and, if it crashed, its marker)
ItemsOf(c) == {x \in AllItems : x[1] = c /\ ((x[2] >= 1 /\ x[2] <= produced[c]) \/ (x[2] = 0 /\ c \in crashed))}
Put_so_far == {x \in AllItems : x[1] \in Children /\ x \in ItemsOf(x[1])}

IndInv == /\ \A c \in 1..MaxK : produced[c] \in 0..MaxR /\ (c \in Children => produced[c] <= Goal(c)) /\ (c \notin Children => produced[c] = 0)
          /\ alive \subseteq Children /\ crashed \subseteq (Children \cap Crashers) /\ snapshot \subseteq Children
          /\ ppc \in {"poll", "drain", "done"}
          \* conservation of items: a partition of what has been put
          /\ buffered \cup pipe \cup got = Put_so_far
          /\ buffered \cap pipe = {} /\ buffered \cap got = {} /\ pipe \cap got = {}
          \* the bounded semaphore counts the items in flight
          /\ sem = K - Cardinality(buffered) - Cardinality(pipe) /\ sem >= 0
          \* a child that is gone has produced everything and flushed its buffer
          /\ \A c \in 1..MaxK : (c \in Children /\ c \notin alive) => Finished(c) /\ BufferOf(c) = {}
          /\ \A c \in crashed : produced[c] = Goal(c)
          \* the parent's snapshot over-approximates the living children once it has polled
          /\ (ppc \in {"drain", "done"} => alive \subseteq snapshot)
          /\ (ppc = "done" => snapshot = {} /\ pipe = {})

\* what the property needs, as a consequence of IndInv (checked as an ordinary invariant as well)
Expected == {x \in AllItems : x[1] \in Children /\ x[2] >= 1 /\ x[2] <= Goal(x[1])}
Conservation == ppc = "done" => {x \in got : x[2] >= 1} = Expected
OnlyProduced == {x \in got : x[2] >= 1} \subseteq Expected

IndInit == /\ produced \in [1..MaxK -> 0..MaxR]
           /\ buffered \in SUBSET AllItems /\ pipe \in SUBSET AllItems /\ got \in SUBSET AllItems
           /\ sem \in 0..MaxK /\ alive \in SUBSET (1..MaxK) /\ crashed \in SUBSET (1..MaxK) /\ snapshot \in SUBSET (1..MaxK)
           /\ ppc \in {"poll", "drain", "done"}
           /\ IndInv
IndImpliesGoal == IndInv => Conservation /\ OnlyProduced
=============================================================================
