---------------------------- MODULE GeoIndexProps ---------------------------
(* C06 -- what GeoIndex.query must return, on an abstract ring.               *)
(* Positions are 0..N-1 on a great circle (N even); the distance class of two *)
(* positions is their ring distance (number of steps, 0..N/2).  Chord and arc *)
(* length are strictly increasing in the class, so "distance <= r" with r     *)
(* chosen between the lengths of class k and k+1 is exactly "class <= k".     *)
(* Nothing on the right-hand sides mentions the tree type, leaf size, the     *)
(* shuffle permutation or the spelling of r: the result may not depend on it. *)
EXTENDS Integers, Sequences, FiniteSets

CONSTANT N

RingDist(a, b) == LET d == IF a >= b THEN a - b ELSE b - a IN IF d <= N - d THEN d ELSE N - d

\* pairs are <<build index, query index>>, 1-based, into the sequences as passed in
Within(B, Q, k) == {p \in (1..Len(B)) \X (1..Len(Q)) : RingDist(B[p[1]], Q[p[2]]) <= k}

SeqRange(s) == {s[i] : i \in 1..Len(s)}

\* r = [pairs |-> sequence of pairs, cls |-> sequence of reported distance classes (same order)]
QueryOK(B, Q, k, r) ==
    /\ Len(r.pairs) = Cardinality(Within(B, Q, k))            \* each pair exactly once
    /\ SeqRange(r.pairs) = Within(B, Q, k)
    /\ Len(r.cls) = Len(r.pairs)
    /\ \A n \in 1..Len(r.pairs) : r.cls[n] = RingDist(B[r.pairs[n][1]], Q[r.pairs[n][2]])
=============================================================================
