---------------------------- MODULE BinningDesign ---------------------------
(* C04 -- implementation-shaped model of the temporally pre-binned search      *)
(* (Collocator.spatial_search_with_temporal_binning, taken when the product of *)
(* the dataset sizes exceeds 10^6).  Space is abstracted into a relation       *)
(* `near` on point indices (what the spatial index would return); time is an   *)
(* integer tick per point.  The code                                           *)
(*   - sorts both datasets by time,                                            *)
(*   - bins the LARGER one in windows of bin_factor * max_interval (the origin  *)
(*     of the windows is whatever pandas chooses: any offset here),            *)
(*   - pairs each bin with the slice [bin start - I, max time in bin + I] of    *)
(*     the other dataset (closed, label based),                                *)
(*   - runs the spatial search per bin on the two chunks and shifts the local   *)
(*     pair indices by the chunk offsets (left searchsorted),                  *)
(*   - swaps the rows back if the datasets had been exchanged,                  *)
(* and collocate() then keeps the pairs with |dt| < I.                         *)
(* TLC checks that the union over all bins is exactly Pairs, each pair once.    *)
EXTENDS Integers, Sequences, FiniteSets, TLC

CONSTANTS T, MaxP, Is, BFs, FullNear      \* FullNear: TRUE = every pair is spatially near (larger instances)

Abs(x) == IF x < 0 THEN -x ELSE x
TimeSeqs == UNION {[1..n -> 0..T-1] : n \in 1..MaxP}

VARIABLES tp, ts, near, I, W, origin, todo, found
vars == <<tp, ts, near, I, W, origin, todo, found>>

\* ---- the property (CollocProps restricted to time; `near` stands for Near) -------------------
Pairs == {p \in near : Abs(tp[p[1]] - ts[p[2]]) < I}

\* ---- sorted views: position k of the time-sorted dataset holds original index Pos(t)[k] ------
Rank(t, i) == Cardinality({j \in 1..Len(t) : t[j] < t[i] \/ (t[j] = t[i] /\ j < i)}) + 1      \* stable sort
Pos(t) == [k \in 1..Len(t) |-> CHOOSE i \in 1..Len(t) : Rank(t, i) = k]
Swapped == Len(ts) > Len(tp)                       \* the larger dataset is binned
A == IF Swapped THEN ts ELSE tp                    \* binned dataset (times), B the other one
B == IF Swapped THEN tp ELSE ts
NearAB(a, b) == IF Swapped THEN <<b, a>> \in near ELSE <<a, b>> \in near

Bins == {k \in -1..((T + W) \div W) : \E i \in 1..Len(A) : origin + k * W <= A[i] /\ A[i] < origin + (k + 1) * W}

Init == /\ tp \in TimeSeqs /\ ts \in TimeSeqs
        /\ near \in (IF FullNear THEN {(1..Len(tp)) \X (1..Len(ts))} ELSE SUBSET ((1..Len(tp)) \X (1..Len(ts))))
        /\ I \in Is /\ \E bf \in BFs : W = bf * I
        /\ origin \in 0..(W - 1)
        /\ todo = Bins /\ found = <<>>

\* one bin: chunk of A, slice of B, offsets, local spatial search, index shift, row swap
ProcessBin(k) ==
    /\ k \in todo
    /\ LET lo == origin + k * W   hi == origin + (k + 1) * W
           pa == Pos(A)  pb == Pos(B)
           chunk1 == {q \in 1..Len(A) : lo <= A[pa[q]] /\ A[pa[q]] < hi}                \* positions in sorted A
           tmax == CHOOSE m \in {A[pa[q]] : q \in chunk1} : \A q \in chunk1 : A[pa[q]] <= m
           c2lo == lo - I   c2hi == tmax + I
           chunk2 == {q \in 1..Len(B) : c2lo <= B[pb[q]] /\ B[pb[q]] <= c2hi}
           off1 == Cardinality({q \in 1..Len(A) : A[pa[q]] < lo})                        \* searchsorted(left)
           off2 == Cardinality({q \in 1..Len(B) : B[pb[q]] < c2lo})
           \* local indices 1..|chunk| -> shifted positions -> original indices
           local == {<<a, b>> \in (1..Cardinality(chunk1)) \X (1..Cardinality(chunk2)) : NearAB(pa[off1 + a], pb[off2 + b])}
           shifted == {<<pa[off1 + p[1]], pb[off2 + p[2]]>> : p \in local}
           rows == IF Swapped THEN {<<p[2], p[1]>> : p \in shifted} ELSE shifted
           checked == {p \in rows : Abs(tp[p[1]] - ts[p[2]]) < I}                         \* collocate()'s temporal check
       IN found' = Append(found, checked)
    /\ todo' = todo \ {k}
    /\ UNCHANGED <<tp, ts, near, I, W, origin>>

Next == \E k \in todo : ProcessBin(k)
Spec == Init /\ [][Next]_vars

AllFound == UNION {found[n] : n \in 1..Len(found)}
\* Design => Props
Complete == todo = {} => AllFound = Pairs
NoDuplicates == \A m, n \in 1..Len(found) : m # n => found[m] \cap found[n] = {}
NeverInvents == AllFound \subseteq Pairs
=============================================================================
