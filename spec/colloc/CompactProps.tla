----------------------------- MODULE CompactProps ---------------------------
(* C13 -- compact collocation data and what expand / collapse / concat mean.  *)
(* A compact dataset is                                                       *)
(*   [np, ns, pairs : Seq(<<p, s>>), pv : 1..np -> Val, sv : 1..ns -> Seq(Val)] *)
(* pv: one value per stored primary point, sv: a channel vector per stored     *)
(* secondary point; Val are small integers, NaN is the constant below.        *)
EXTENDS Integers, Sequences, FiniteSets, FiniteSetsExt

NaN == -99
RECURSIVE SumOver(_, _)
SumOver(f, S) == IF S = {} THEN 0 ELSE LET x == CHOOSE y \in S : TRUE IN f[x] + SumOver(f, S \ {x})
SeqRange(s) == {s[i] : i \in 1..Len(s)}

\* valid indices, every stored point takes part in at least one pair
CompactInv(c) ==
    /\ \A k \in 1..Len(c.pairs) : c.pairs[k][1] \in 1..c.np /\ c.pairs[k][2] \in 1..c.ns
    /\ {c.pairs[k][1] : k \in 1..Len(c.pairs)} = 1..c.np
    /\ {c.pairs[k][2] : k \in 1..Len(c.pairs)} = 1..c.ns
    /\ Len(c.pv) = c.np /\ Len(c.sv) = c.ns

\* one row per pair carrying exactly the primary and the secondary values of that pair
Expand(c) == [k \in 1..Len(c.pairs) |-> <<c.pv[c.pairs[k][1]], c.sv[c.pairs[k][2]]>>]

\* ---- collapse onto the primary (reference = first group) ---------------------
NChan(c) == Len(c.sv[1])
Partners(c, r) == {k \in 1..Len(c.pairs) : c.pairs[k][1] = r}          \* pair positions of reference point r
Vals(c, r, ch) == [k \in Partners(c, r) |-> c.sv[c.pairs[k][2]][ch]]    \* partner values (a function on positions)
Good(c, r, ch) == {k \in Partners(c, r) : Vals(c, r, ch)[k] # NaN}
Number(c, r, ch) == Cardinality(Good(c, r, ch))
Sum(c, r, ch) == SumOver(Vals(c, r, ch), Good(c, r, ch))
SumSq(c, r, ch) == SumOver([k \in Partners(c, r) |-> Vals(c, r, ch)[k] * Vals(c, r, ch)[k]], Good(c, r, ch))
MaxVal(c, r, ch) == IF Good(c, r, ch) = {} THEN NaN ELSE Max({Vals(c, r, ch)[k] : k \in Good(c, r, ch)})
\* mean * number = sum ;  std^2 * number^2 = number * sumsq - sum^2   (exact integer statements)
CollapsePrimary(c) ==
    [r \in 1..c.np |-> [ref |-> c.pv[r],
                        stat |-> [ch \in 1..NChan(c) |->
                                    [number |-> Number(c, r, ch), sum |-> Sum(c, r, ch), sumsq |-> SumSq(c, r, ch),
                                     max |-> MaxVal(c, r, ch)]]]]

\* ---- collapse onto the secondary (reference = second group): primary values are scalars ----
PartnersS(c, r) == {k \in 1..Len(c.pairs) : c.pairs[k][2] = r}
GoodS(c, r) == {k \in PartnersS(c, r) : c.pv[c.pairs[k][1]] # NaN}
CollapseSecondary(c) ==
    [r \in 1..c.ns |-> [ref |-> c.sv[r],
                        stat |-> [number |-> Cardinality(GoodS(c, r)),
                                  sum |-> SumOver([k \in PartnersS(c, r) |-> c.pv[c.pairs[k][1]]], GoodS(c, r)),
                                  sumsq |-> SumOver([k \in PartnersS(c, r) |-> c.pv[c.pairs[k][1]] * c.pv[c.pairs[k][1]]], GoodS(c, r))]]]

\* ---- concatenation -------------------------------------------------------------
Shift(c, dp, ds) == [k \in 1..Len(c.pairs) |-> <<c.pairs[k][1] + dp, c.pairs[k][2] + ds>>]
Concat2(a, b) == [np |-> a.np + b.np, ns |-> a.ns + b.ns,
                  pairs |-> a.pairs \o Shift(b, a.np, a.ns),
                  pv |-> a.pv \o b.pv, sv |-> a.sv \o b.sv]
ConcatLaw(a, b) == /\ Expand(Concat2(a, b)) = Expand(a) \o Expand(b)
                   /\ (CompactInv(a) /\ CompactInv(b) => CompactInv(Concat2(a, b)))
=============================================================================
