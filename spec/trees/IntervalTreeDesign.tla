------------------------- MODULE IntervalTreeDesign -------------------------
(* C03 -- implementation-shaped model of the centred interval tree.          *)
(* A (sub)tree is identified with the set of indices it stores.  Building a   *)
(* node picks a centre among the left end points of its intervals (the code   *)
(* picks the median of the sorted list; the model admits ANY stored left end, *)
(* so every repair of the median choice is covered), and partitions the rest  *)
(* into a left and a right subtree.  A query is a traversal with a worklist:  *)
(* one action per visited node, as in the recursive _query/_query_point.      *)
(* TLC checks that on termination the accumulated answer is exactly Hits.     *)
EXTENDS IntervalProps, TLC

CONSTANTS Lo, Hi, MaxLen, Kind        \* Kind \in {"interval", "point"}

Ivals == {<<a, b>> : a \in Lo..Hi, b \in Lo..Hi} \ {<<a, b>> \in (Lo..Hi) \X (Lo..Hi) : a > b}
AllSeqs == UNION {[1..n -> Ivals] : n \in 1..MaxLen}

VARIABLES S,        \* stored intervals
          q,        \* the query interval (a point p is <<p, p>>)
          pending,  \* set of subtrees (index sets) still to be visited
          acc       \* index -> how often it was reported
vars == <<S, q, pending, acc>>

Init ==
    /\ S \in AllSeqs
    /\ q \in (IF Kind = "point" THEN {<<p, p>> : p \in Lo-1..Hi+1}
              ELSE Ivals \cup {<<Lo-1, Lo-1>>, <<Lo-1, Hi+1>>, <<Hi+1, Hi+1>>})
    /\ pending = {1..Len(S)}
    /\ acc = [i \in 1..Len(S) |-> 0]

Centre(I, c) == {i \in I : S[i][1] <= c /\ S[i][2] >= c}
LeftOf(I, c) == {i \in I : S[i][2] < c}
RightOf(I, c) == {i \in I : S[i][1] > c}

\* visit one node: report centre hits, descend conditionally
Visit(I, c) ==
    /\ I \in pending
    /\ c \in {S[i][1] : i \in I}
    /\ acc' = [i \in DOMAIN acc |-> IF i \in Centre(I, c) /\ Overlaps(S[i], q) THEN acc[i] + 1 ELSE acc[i]]
    /\ LET goL == IF Kind = "point" THEN q[1] < c ELSE q[1] <= c
           goR == IF Kind = "point" THEN q[1] > c ELSE q[2] >= c
           L == IF goL /\ LeftOf(I, c) # {} THEN {LeftOf(I, c)} ELSE {}
           R == IF goR /\ RightOf(I, c) # {} THEN {RightOf(I, c)} ELSE {}
       IN pending' = (pending \ {I}) \cup L \cup R
    /\ UNCHANGED <<S, q>>

Next == \E I \in pending : \E c \in Lo..Hi : Visit(I, c)

Spec == Init /\ [][Next]_vars

\* every node is a partition of its intervals
PartitionInv == \A I \in pending : \A c \in {S[i][1] : i \in I} :
    /\ Centre(I, c) \cup LeftOf(I, c) \cup RightOf(I, c) = I
    /\ Centre(I, c) \cap LeftOf(I, c) = {} /\ Centre(I, c) \cap RightOf(I, c) = {}
    /\ LeftOf(I, c) \cap RightOf(I, c) = {}
    /\ Centre(I, c) # {}                     \* progress: recursion terminates

\* Design => Props: the finished traversal reports exactly Hits, each once
DoneInv == pending = {} => \A i \in DOMAIN acc : acc[i] = IF i \in Hits(S, q) THEN 1 ELSE 0
\* and never over-reports on the way
NoDupInv == \A i \in DOMAIN acc : acc[i] <= 1 /\ (acc[i] = 1 => i \in Hits(S, q))
\* pruning soundness: a hit not yet reported still sits in a pending subtree
NoLossInv == \A i \in Hits(S, q) : acc[i] = 1 \/ \E I \in pending : i \in I
=============================================================================
