--------------------------- MODULE IntervalProps ---------------------------
(* C03 -- the property layer for typhon.trees.IntervalTree.                  *)
(* Stored intervals are a SEQUENCE of closed intervals <<lo, hi>>: order and  *)
(* duplicates matter because results are indices into that sequence.          *)
(* The implementation is only ever compared against the operators of this    *)
(* module; the tree mechanism lives in IntervalTreeDesign.                    *)
EXTENDS Integers, Sequences, FiniteSets

Overlaps(a, b) == a[1] <= b[2] /\ a[2] >= b[1]            \* closed intervals

Hits(S, q)      == {i \in 1..Len(S) : Overlaps(S[i], q)}
PointHits(S, p) == Hits(S, <<p, p>>)
Contains(S, q)  == Hits(S, q) # {}
ContainsPoint(S, p) == PointHits(S, p) # {}

Range(s) == {s[k] : k \in 1..Len(s)}

\* "each once": the answer list is the hit set without repetition, in any order
IsBagOf(R, H) == Len(R) = Cardinality(H) /\ Range(R) = H

QueryOK(S, Q, R) ==
    /\ Len(R) = Len(Q)
    /\ \A k \in 1..Len(Q) : IsBagOf(R[k], Hits(S, Q[k]))

PointsOK(S, P, R) ==
    /\ Len(R) = Len(P)
    /\ \A k \in 1..Len(P) : IsBagOf(R[k], PointHits(S, P[k]))
=============================================================================
