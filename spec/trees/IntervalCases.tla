--------------------------- MODULE IntervalCases ----------------------------
(* C03 -- test generator: one state per stored sequence; the oracle answers   *)
(* for every query interval and point of the bound are printed with it.       *)
EXTENDS IntervalProps, TLC, Json

CONSTANTS Lo, Hi, MaxLen
Ivals == {<<a, b>> \in (Lo..Hi) \X (Lo..Hi) : a <= b}
AllSeqs == UNION {[1..n -> Ivals] : n \in 1..MaxLen}
Queries == {<<a, b>> \in (Lo-1..Hi+1) \X (Lo-1..Hi+1) : a <= b}
Points == Lo-1..Hi+1

VARIABLE S
Init == S \in AllSeqs
Next == UNCHANGED S

(* Replication law used by the replay with compact dtypes: the answer for the  *)
(* sequence stored k times over is the answer for S shifted by every multiple *)
(* of Len(S) -- checked here for k = 3 on every generated sequence and query. *)
Shifted(H, n, k) == {i + j * n : i \in H, j \in 0..(k-1)}
ReplicationLaw == \A qq \in Queries : Hits(S \o S \o S, qq) = Shifted(Hits(S, qq), Len(S), 3)

Emit == PrintT(<<"CASE", ToJson([
            S |-> S,
            iq |-> [qq \in Queries |-> Hits(S, qq)],
            pq |-> [p \in Points |-> PointHits(S, p)]])>>)
=============================================================================
