--------------------------- MODULE IntervalTrace ----------------------------
(* C03 -- trace validation.  Each line of IOEnv.TRACE_FILE is one recorded   *)
(* session on the real IntervalTree:                                          *)
(*   {tid, S: [[lo,hi],..], calls: [{op, a, ok, r}, ..]} *)
(* A session is accepted iff every call's result is what IntervalProps        *)
(* allows; the first unexplained call is printed.                            *)
EXTENDS IntervalProps, TLC, Json, IOUtils

Traces == ndJsonDeserialize(IOEnv.TRACE_FILE)

VARIABLE t
Init == t \in 1..Len(Traces)
Next == UNCHANGED t

CallOK(S, c) ==
    c.ok /\                       \* an exception is never an allowed outcome
    CASE c.op = "query"  -> QueryOK(S, c.a, c.r)
      [] c.op = "points" -> PointsOK(S, c.a, c.r)
      [] c.op = "in"     -> c.r = Contains(S, c.a)
      [] c.op = "inpt"   -> c.r = ContainsPoint(S, c.a)
      [] OTHER -> FALSE

FirstBad(tr) == LET bad == {k \in 1..Len(tr.calls) : ~CallOK(tr.S, tr.calls[k])}
                IN IF bad = {} THEN 0 ELSE CHOOSE k \in bad : \A j \in bad : k <= j

Verdict == LET tr == Traces[t] b == FirstBad(tr)
           IN IF b = 0 THEN PrintT(<<"ACCEPT", tr.tid>>) ELSE PrintT(<<"REJECT", tr.tid, b>>)
=============================================================================
