INIT Init
NEXT Next
INVARIANT Law
INVARIANT Emit
