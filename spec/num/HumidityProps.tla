---------------------------- MODULE HumidityProps ---------------------------
(* C09 (partial) -- humidity measures as exact rational functions.             *)
(* m = Mw/Md.  x: volume mixing ratio, w: mass mixing ratio, q: specific humidity. *)
EXTENDS Rat, Sequences, TLC, Json

W2Q(w) == Div(w, Add(R(1), w))
W2X(w, m) == Div(w, Add(w, m))
Q2W(q) == Div(q, Sub(R(1), q))
Q2X(q, m) == Div(q, Add(Mul(Sub(R(1), q), m), q))
X2W(x, m) == Mul(Div(x, Sub(R(1), x)), m)
X2Q(x, m) == Div(x, Add(Div(Sub(R(1), x), m), x))

\* relative humidity <-> vmr for an arbitrary saturation function (given as its value es at T)
RH2X(rh, p, es) == Div(Mul(rh, es), p)
X2RH(x, p, es) == Div(Mul(x, p), es)

\* mixed-phase blend: ice below Tt - 23, liquid above Tt, quadratic blend in between
Mixed(T, Tt, ice, liq) == IF Lt(Tt, T) THEN liq
                          ELSE IF Lt(T, Sub(Tt, R(23))) THEN ice
                          ELSE LET f == Div(Add(Sub(T, Tt), R(23)), R(23)) IN Add(ice, Mul(Sub(liq, ice), Mul(f, f)))

\* moist-adiabatic lapse rate as a rational function of the saturation mixing ratio ws and T
Lapse(ws, T, g, cp, Lv, Rd, Rv) ==
    Mul(Div(g, cp), Div(Add(R(1), Div(Mul(Lv, ws), Mul(Rd, T))),
                        Add(R(1), Div(Mul(Mul(Lv, Lv), ws), Mul(Mul(cp, Rv), Mul(T, T))))))

CONSTANT Big                                            \* TRUE: the finer grid of the thorough tier
Grid == {R(0), Frac(1, 1000000), Frac(1, 50), Frac(1, 10), Frac(1, 3), Frac(1, 2), Frac(9, 10)}
        \cup (IF Big THEN {Frac(1, 100000), Frac(1, 1000), Frac(1, 7), Frac(1, 4), Frac(2, 3), Frac(3, 4), Frac(99, 100), Frac(3, 1000)} ELSE {})   \* 10^-6: trace-gas level
Ms == {Frac(18, 29), Frac(5, 8)}
VARIABLES v, m
Init == v \in Grid /\ m \in Ms
Next == UNCHANGED <<v, m>>

Inverses == /\ Q2W(W2Q(v)) = v /\ W2Q(Q2W(v)) = v
            /\ X2W(W2X(v, m), m) = v /\ W2X(X2W(v, m), m) = v
            /\ X2Q(Q2X(v, m), m) = v /\ Q2X(X2Q(v, m), m) = v
Routes == /\ W2Q(X2W(v, m)) = X2Q(v, m) /\ W2X(Q2W(v), m) = Q2X(v, m)
          /\ X2W(Q2X(v, m), m) = Q2W(v) /\ Q2W(X2Q(v, m)) = X2W(v, m)
          /\ X2Q(W2X(v, m), m) = W2Q(v) /\ Q2X(W2Q(v), m) = W2X(v, m)
ZeroAndMonotone == /\ X2Q(R(0), m) = R(0) /\ X2W(R(0), m) = R(0) /\ Q2X(R(0), m) = R(0) /\ Q2W(R(0)) = R(0)
                   /\ W2Q(R(0)) = R(0) /\ W2X(R(0), m) = R(0)
                   /\ \A u \in Grid : Lt(u, v) => /\ Lt(X2Q(u, m), X2Q(v, m)) /\ Lt(X2W(u, m), X2W(v, m))
                                                 /\ Lt(Q2X(u, m), Q2X(v, m)) /\ Lt(Q2W(u), Q2W(v))
                                                 /\ Lt(W2Q(u), W2Q(v)) /\ Lt(W2X(u, m), W2X(v, m))
RhInverse == \A es \in {R(7), Frac(611, 2)}, p \in {R(1000), R(50)} :
                 X2RH(RH2X(v, p, es), p, es) = v /\ RH2X(X2RH(v, p, es), p, es) = v
\* blend logic with stand-in saturation values ice < liq
Tt == Frac(27316, 100)
BlendTs == {Sub(Tt, R(24)), Sub(Tt, R(23)), Sub(Tt, Frac(23, 2)), Tt, Add(Tt, R(1)), Sub(Tt, Frac(2299, 100)), Sub(Tt, Frac(1, 100)),
            R(200), R(251), R(260), R(273), R(300),
            Sub(Tt, Frac(23005, 1000)), Sub(Tt, Frac(22995, 1000))}          \* 5 mK on either side of the lower joint          \* whole kelvins: temperatures that an INTEGER array can hold
BlendLogic == \A T \in BlendTs : LET ice == R(3) liq == R(5) mx == Mixed(T, Tt, ice, liq)
                                IN /\ Le(ice, mx) /\ Le(mx, liq)
                                   /\ (Lt(T, Sub(Tt, R(23))) => mx = ice) /\ (Lt(Tt, T) => mx = liq)
                                   /\ (T = Sub(Tt, R(23)) => mx = ice) /\ (T = Tt => mx = liq)      \* continuity at both joints
\* lapse rate: 0 < gamma <= g/cp under cp Rv T <= Lv Rd, equality at ws = 0, decreasing in ws
LapseLaws == LET g == R(8) cp == R(4) Lv == R(64) Rd == R(2) Rv == R(3) T == R(8)    \* cp Rv T = 96 <= Lv Rd = 128
                 ws == v
             IN /\ Lt(R(0), Lapse(ws, T, g, cp, Lv, Rd, Rv))
                /\ Le(Lapse(ws, T, g, cp, Lv, Rd, Rv), Div(g, cp))
                /\ Lapse(R(0), T, g, cp, Lv, Rd, Rv) = Div(g, cp)
                /\ \A u \in Grid : Lt(u, ws) => Le(Lapse(ws, T, g, cp, Lv, Rd, Rv), Lapse(u, T, g, cp, Lv, Rd, Rv))

Emit == PrintT(<<"CASE", ToJson([v |-> v, m |-> m,
          w2q |-> W2Q(v), w2x |-> W2X(v, m), q2w |-> Q2W(v), q2x |-> Q2X(v, m), x2w |-> X2W(v, m), x2q |-> X2Q(v, m),
          rh2x |-> RH2X(v, R(50), Frac(611, 2)), x2rh |-> X2RH(v, R(50), Frac(611, 2)),
          blend |-> [T \in BlendTs |-> Mixed(T, Tt, R(3), R(5))],
          lapse |-> Lapse(v, R(8), R(8), R(4), R(64), R(2), R(3))])>>)
=============================================================================
