-------------------------- MODULE SnellNearCritical -------------------------
(* C08 -- Snell's law needs only the SINE of the incidence angle to be rational *)
(* (no cosine): this catalogue places n1 sin(theta1) / n2 a few millionths      *)
(* below and above 1, i.e. right at the critical angle, and next to grazing     *)
(* incidence for identical media.  Total reflection is still the discrete       *)
(* outcome  n1 s1 > n2 ; below it  sin(theta2) = n1 s1 / n2  exactly.           *)
EXTENDS Rat, TLC, Json

Sines == {Frac(131071, 131072), Frac(65535, 65536), Frac(87381, 131072), Frac(43691, 65536), Frac(1, 3), Frac(2, 3)}
Ratios == {R(1), Frac(3, 2), Frac(2, 3), R(2), Frac(1, 2)}          \* n1 / n2 (n2 = 1 or 2 in the replay)

VARIABLES s1, ratio
Init == s1 \in Sines /\ ratio \in Ratios
Next == UNCHANGED <<s1, ratio>>
S2 == Mul(ratio, s1)
Reflected == Lt(R(1), S2)
NearOne == Lt(AbsR(Sub(S2, R(1))), Frac(1, 50000))                    \* within 2e-5 of the critical value
Law == /\ (Le(ratio, R(1)) => ~Reflected)
       /\ (~Reflected => Div(S2, ratio) = s1)
\* the catalogue must contain both sides of the critical angle at a few millionths
ASSUME \E s \in Sines, r \in Ratios : Lt(R(1), Mul(r, s)) /\ Lt(Sub(Mul(r, s), R(1)), Frac(1, 50000))
ASSUME \E s \in Sines, r \in Ratios : Lt(Mul(r, s), R(1)) /\ Lt(Sub(R(1), Mul(r, s)), Frac(1, 50000))
Emit == PrintT(<<"CASE", ToJson([s1 |-> s1, ratio |-> ratio, s2 |-> S2, reflected |-> Reflected, critical |-> (S2 = R(1)), near |-> NearOne])>>)
=============================================================================
