------------------------------ MODULE AtmosCases ----------------------------
(* C14 (second half) -- IWV, CRH and pressure2height on small rational profiles. *)
EXTENDS TrapzProps

\* profiles: decreasing pressure (in units of 1024 Pa), temperatures (in units of 16 K), vmr as k/64
Profiles == {
  [p |-> <<R(12), R(10), R(8), R(4)>>, T |-> <<R(5), R(4), R(4), R(2)>>, vmr |-> <<Frac(1, 4), Frac(1, 8), Frac(1, 8), R(0)>>,
   z |-> <<R(0), R(3), R(5), R(12)>>],
  [p |-> <<R(10), R(5)>>, T |-> <<R(4), R(4)>>, vmr |-> <<Frac(1, 2), Frac(1, 4)>>, z |-> <<R(0), R(8)>>],
  [p |-> <<R(8), R(6), R(5)>>, T |-> <<R(5), R(3), R(2)>>, vmr |-> <<R(0), R(0), R(0)>>, z |-> <<R(1), R(2), R(6)>>],
  [p |-> <<R(9), R(7), R(6), R(2)>>, T |-> <<R(3), R(3), R(2), R(1)>>,
   vmr |-> <<Frac(1, 4), Frac(1, 4), Frac(1, 8), Frac(1, 16)>>, z |-> <<R(0), R(2), R(3), R(5)>>]}
M == R(2)              \* stand-in for Md/Mw
G == R(8)              \* stand-in for g
Rv == Frac(1, 2)       \* stand-in for the gas constant of water vapour
\* every profile also in the opposite order (top of the atmosphere first, pressure INCREASING along the grid)
RevProf(pr) == [p |-> Rev(pr.p), T |-> Rev(pr.T), vmr |-> Rev(pr.vmr), z |-> Rev(pr.z)]
AllProfiles == Profiles \cup {RevProf(pr) : pr \in Profiles}
Decreasing(pr) == \A k \in 2..Len(pr.p) : Lt(pr.p[k], pr.p[k-1])
VARIABLE prof
AInit == prof \in AllProfiles /\ x = <<0, 1>> /\ y1 = <<0, 0>> /\ y2 = <<0, 0>>
ANext == UNCHANGED <<prof, x, y1, y2>>
Qs(pr) == [i \in 1..Len(pr.p) |-> Frac(i, 64)]           \* a stand-in saturation specific humidity profile
NonNegative == Decreasing(prof) => ~Lt(IwvH(prof.vmr, prof.p, M, G), R(0))
\* the height starts at 0 and increases strictly with DECREASING pressure - in whichever order the grid is given; the
\* heights of the reversed grid are the mirror image of the original ones
HeightMonotone == LET h == Heights(prof.p, prof.T) n == Len(prof.p) hr == Heights(Rev(prof.p), Rev(prof.T)) IN
                     /\ h[1] = R(0)
                     /\ \A k \in 2..n : /\ (Lt(prof.p[k], prof.p[k-1]) => Lt(h[k-1], h[k]))
                                          /\ (Lt(prof.p[k-1], prof.p[k]) => Lt(h[k], h[k-1]))
                     /\ \A k \in 1..n : hr[k] = Sub(h[n + 1 - k], h[n])
CrhLaws == /\ Crh(Qs(prof), Qs(prof), prof.p) = R(1)
           /\ Crh([i \in 1..Len(prof.p) |-> Mul(Frac(1, 4), Qs(prof)[i])], Qs(prof), prof.p) = Frac(1, 4)
AEmit == PrintT(<<"CASE", ToJson([p |-> prof.p, T |-> prof.T, vmr |-> prof.vmr, z |-> prof.z,
            m |-> M, g |-> G, rv |-> Rv,
            iwvh |-> IwvH(prof.vmr, prof.p, M, G), iwvg |-> IwvG(prof.vmr, prof.p, prof.T, prof.z, Rv),
            heights |-> Heights(prof.p, prof.T)])>>)
=============================================================================
