---------------------------- MODULE EmUnitsProps ----------------------------
(* C08 (partial) -- spectral unit converters over exact rationals with        *)
(* symbolic constants c (speed of light) and k (Boltzmann).                   *)
EXTENDS Rat, Sequences, TLC, Json

CONSTANTS Cs, Ks             \* stand-in values for c and k (sets of rationals)

F2L(f, c) == Div(c, f)          F2N(f, c) == Div(f, c)
L2F(l, c) == Div(c, l)          L2N(l) == Inv(l)
N2F(n, c) == Mul(c, n)          N2L(n) == Inv(n)
RJ(f, T, c, k) == Div(Mul(Mul(R(2), Mul(f, f)), Mul(k, T)), Mul(c, c))
RJL(l, T, c, k) == Div(Mul(Mul(R(2), c), Mul(k, T)), Mul(Mul(l, l), Mul(l, l)))
RJTb(f, r, c, k) == Mul(Div(Mul(c, c), Mul(Mul(R(2), Mul(f, f)), k)), r)

Rev(s) == [i \in 1..Len(s) |-> s[Len(s) + 1 - i]]
\* spectral densities: a spectrum is a sequence (over the grid) of rows (further dimensions)
PerHz2PerM(spec, fg, c) == <<Rev([i \in 1..Len(fg) |-> [j \in 1..Len(spec[i]) |-> Div(Mul(spec[i][j], Mul(fg[i], fg[i])), c)]]),
                             Rev([i \in 1..Len(fg) |-> F2L(fg[i], c)])>>
PerM2PerHz(spec, lg, c) == <<Rev([i \in 1..Len(lg) |-> [j \in 1..Len(spec[i]) |-> Div(Mul(spec[i][j], Mul(lg[i], lg[i])), c)]]),
                             Rev([i \in 1..Len(lg) |-> L2F(lg[i], c)])>>
PerHz2PerN(spec, fg, c) == <<[i \in 1..Len(fg) |-> [j \in 1..Len(spec[i]) |-> Mul(spec[i][j], c)]],
                             [i \in 1..Len(fg) |-> F2N(fg[i], c)]>>
PerN2PerHz(spec, ng, c) == <<[i \in 1..Len(ng) |-> [j \in 1..Len(spec[i]) |-> Div(spec[i][j], c)]],
                             [i \in 1..Len(ng) |-> N2F(ng[i], c)]>>

Grids == {<<R(1), R(2), R(4)>>, <<Frac(1, 2), R(3)>>, <<R(2), R(3), R(5)>>,
          <<R(4), R(2), R(1)>>, <<R(2), R(5), R(3)>>}         \* descending and non-monotonic grids are positive grids, too
VARIABLES c, k, fg
Init == c \in Cs /\ k \in Ks /\ fg \in Grids
Next == UNCHANGED <<c, k, fg>>
Spec1 == [i \in 1..Len(fg) |-> <<R(i), Frac(i, 2)>>]            \* 2 columns

Increasing(g) == \A i \in 1..Len(g)-1 : Lt(g[i], g[i+1])
UnitInverses == \A i \in 1..Len(fg) : LET f == fg[i] IN
    /\ L2F(F2L(f, c), c) = f /\ F2L(L2F(f, c), c) = f /\ N2F(F2N(f, c), c) = f /\ F2N(N2F(f, c), c) = f
    /\ N2L(L2N(f)) = f /\ L2N(N2L(f)) = f /\ L2N(F2L(f, c)) = F2N(f, c)
RjLaws == \A i \in 1..Len(fg) : \A T \in {R(2), R(300)} : LET f == fg[i] IN
    /\ RJTb(f, RJ(f, T, c, k), c, k) = T                                     \* brightness temperature inverts Rayleigh-Jeans
    /\ RJL(F2L(f, c), T, c, k) = Div(Mul(RJ(f, T, c, k), Mul(f, f)), c)      \* wavelength form = frequency form * f^2 / c
\* scaling the frequency by s scales the Rayleigh-Jeans radiance by s^2 (and the brightness temperature of a fixed
\* radiance by 1/s^2): lets the replay use frequencies of 10^9 times the grid values (GHz as Python integers)
RjHomogeneous == \A i \in 1..Len(fg) : \A sc \in {R(2), R(10), Frac(1, 3)} : LET f == fg[i] IN
    /\ RJ(Mul(sc, f), R(300), c, k) = Mul(Mul(sc, sc), RJ(f, R(300), c, k))
    /\ RJTb(Mul(sc, f), R(7), c, k) = Div(RJTb(f, R(7), c, k), Mul(sc, sc))
DensityLaws ==
    LET a == PerHz2PerM(Spec1, fg, c)  b == PerM2PerHz(a[1], a[2], c)
        d == PerHz2PerN(Spec1, fg, c)  e == PerN2PerHz(d[1], d[2], c)
    IN /\ b[1] = Spec1 /\ b[2] = fg                      \* inverse to each other
       /\ e[1] = Spec1 /\ e[2] = fg
       /\ (Increasing(fg) => Increasing(a[2]) /\ Increasing(d[2]))   \* an increasing grid stays increasing (reversed iff needed)
       \* spectrum and grid stay paired: every returned (grid value, row) is the image of one input (grid value, row)
       /\ \A i \in 1..Len(fg) : \E j \in 1..Len(fg) : a[2][i] = F2L(fg[j], c) /\ a[1][i] = [q \in 1..2 |-> Div(Mul(Spec1[j][q], Mul(fg[j], fg[j])), c)]
Emit == PrintT(<<"CASE", ToJson([c |-> c, k |-> k, fg |-> fg, spec |-> Spec1,
          f2l |-> [i \in 1..Len(fg) |-> F2L(fg[i], c)], f2n |-> [i \in 1..Len(fg) |-> F2N(fg[i], c)],
          n2f |-> [i \in 1..Len(fg) |-> N2F(fg[i], c)], l2n |-> [i \in 1..Len(fg) |-> L2N(fg[i])],
          rj |-> [i \in 1..Len(fg) |-> RJ(fg[i], R(300), c, k)], rjl |-> [i \in 1..Len(fg) |-> RJL(fg[i], R(300), c, k)],
          rjtb |-> [i \in 1..Len(fg) |-> RJTb(fg[i], R(7), c, k)],
          hz2m |-> PerHz2PerM(Spec1, fg, c), m2hz |-> PerM2PerHz(Spec1, fg, c),
          hz2n |-> PerHz2PerN(Spec1, fg, c), n2hz |-> PerN2PerHz(Spec1, fg, c)])>>)
=============================================================================
