------------------------------ MODULE TrapzProps ----------------------------
(* C14 -- column integrals as exact rational/integer arithmetic.               *)
(* Trapz2(y, x) is TWICE the integral of the piecewise-linear interpolant of    *)
(* (x, y) (so that integer data give an integer): sum (x[i+1]-x[i])(y[i]+y[i+1]). *)
(* Arrays of rank 1..3 are nested sequences; the axis selects the fibre.        *)
EXTENDS Rat, Sequences, TLC, Json, Randomization

RECURSIVE TrapzTo(_, _, _)
TrapzTo(y, x, n) == IF n <= 1 THEN 0 ELSE (x[n] - x[n-1]) * (y[n-1] + y[n]) + TrapzTo(y, x, n - 1)
Trapz2(y, x) == TrapzTo(y, x, Len(y))
Unit(n) == [i \in 1..n |-> i - 1]                         \* default spacing

\* rank 2 (shape n0 x n1) and rank 3 (n0 x n1 x n2): integrate along axis a (0-based like numpy)
T2(y, x, a) == IF a = 0 THEN [j \in 1..Len(y[1]) |-> Trapz2([i \in 1..Len(y) |-> y[i][j]], x)]
               ELSE [i \in 1..Len(y) |-> Trapz2(y[i], x)]
T3(y, x, a) == CASE a = 0 -> [j \in 1..Len(y[1]) |-> [k \in 1..Len(y[1][1]) |-> Trapz2([i \in 1..Len(y) |-> y[i][j][k]], x)]]
                 [] a = 1 -> [i \in 1..Len(y) |-> [k \in 1..Len(y[1][1]) |-> Trapz2([j \in 1..Len(y[1]) |-> y[i][j][k]], x)]]
                 [] OTHER -> [i \in 1..Len(y) |-> [j \in 1..Len(y[1]) |-> Trapz2(y[i][j], x)]]

\* ---- laws (model-checked on rank-1 data) ----------------------------------------
Rev(s) == [i \in 1..Len(s) |-> s[Len(s) + 1 - i]]
Linear(y1, y2, x, a) == Trapz2([i \in 1..Len(x) |-> a * y1[i] + y2[i]], x) = a * Trapz2(y1, x) + Trapz2(y2, x)
Additive(y, x, k) == Trapz2(y, x) = Trapz2([i \in 1..k |-> y[i]], [i \in 1..k |-> x[i]])
                                   + Trapz2([i \in 1..(Len(y) - k + 1) |-> y[k - 1 + i]], [i \in 1..(Len(y) - k + 1) |-> x[k - 1 + i]])
SignReversal(y, x) == Trapz2(Rev(y), Rev(x)) = -Trapz2(y, x)
\* the integral is homogeneous in the coordinate: x -> s x (+ any shift) scales it by s - whatever the size of s
\* (grids in metres with nanometre steps are grids like any other)
Homogeneous(y, x, s, sh) == Trapz2(y, [i \in 1..Len(x) |-> s * x[i] + sh]) = s * Trapz2(y, x)

\* ---- hydrostatic quantities as rational functions --------------------------------
\* specific humidity from volume mixing ratio with m = Md/Mw:  q = x / ((1 - x) m + x)
Qv(x, m) == Div(x, Add(Mul(Sub(R(1), x), m), x))
RTrapz(y, x) == LET RECURSIVE f(_) f(n) == IF n <= 1 THEN R(0) ELSE Add(Mul(Sub(x[n], x[n-1]), Add(y[n-1], y[n])), f(n - 1))
                IN Mul(Frac(1, 2), f(Len(y)))
\* IWV, hydrostatic form:  -(1/g) * integral q dp
IwvH(vmr, p, m, g) == Neg(Div(RTrapz([i \in 1..Len(vmr) |-> Qv(vmr[i], m)], p), g))
\* IWV, general form: integral of vmr * p / (Rv T) over z
IwvG(vmr, p, T, z, Rv) == RTrapz([i \in 1..Len(vmr) |-> Div(Mul(vmr[i], p[i]), Mul(Rv, T[i]))], z)
\* pressure2height in units of R/g:  z_k * g / R = sum -(dp) / (mean of p/T over the layer)
RECURSIVE HeightTo(_, _, _)
HeightTo(p, T, k) == IF k <= 1 THEN R(0)
                     ELSE Add(HeightTo(p, T, k - 1),
                              Div(Neg(Sub(p[k], p[k-1])), Mul(Frac(1, 2), Add(Div(p[k-1], T[k-1]), Div(p[k], T[k])))))
Heights(p, T) == [k \in 1..Len(p) |-> HeightTo(p, T, k)]
\* column relative humidity: ratio of two IWV integrals (the 1/g cancels)
Crh(q, qs, p) == Div(RTrapz(q, p), RTrapz(qs, p))

CONSTANTS Mode, NSample
Grids == {<<0, 1, 2, 3>>, <<0, 2, 3, 7>>, <<5, 3, 2, 0>>, <<-2, 0, 1>>, <<4, 1>>, <<0, 1, 4, 6, 7>>}
VARIABLES x, y1, y2
Init == /\ x \in Grids
        /\ IF Mode = "laws" THEN y1 \in [1..Len(x) -> -1..2] /\ y2 \in [1..Len(x) -> 0..1]
           ELSE y1 \in RandomSubset(NSample, [1..Len(x) -> -2..3]) /\ y2 \in RandomSubset(2, [1..Len(x) -> 0..3])
Next == UNCHANGED <<x, y1, y2>>
Laws == /\ \A a \in {-2, 3} : Linear(y1, y2, x, a)
        /\ \A k \in 1..Len(x) : Additive(y1, x, k)
        /\ SignReversal(y1, x)
        /\ \A s \in {2, 5, -3} : \A sh \in {0, 7} : Homogeneous(y1, x, s, sh)
        /\ Trapz2(y1, Unit(Len(x))) = TrapzTo(y1, [i \in 1..Len(x) |-> i], Len(x))

\* replay cases: rank-1/2/3 arrays assembled from y1, y2 by fixed index formulas
A2 == [i \in 1..Len(x) |-> [j \in 1..2 |-> y1[i] * j + y2[i]]]                    \* shape (n, 2): axis 0
B2 == [i \in 1..3 |-> [j \in 1..Len(x) |-> y1[j] * i - y2[j]]]                    \* shape (3, n): axis 1
A3 == [i \in 1..2 |-> [j \in 1..Len(x) |-> [k \in 1..2 |-> y1[j] * (i + k) + y2[j] * k]]]   \* shape (2, n, 2): axis 1
C3 == [i \in 1..2 |-> [j \in 1..2 |-> [k \in 1..Len(x) |-> y1[k] - i * y2[k] + j]]]         \* shape (2, 2, n): axis 2
D3 == [i \in 1..Len(x) |-> [j \in 1..2 |-> [k \in 1..2 |-> y2[i] * j - y1[i] * k]]]         \* shape (n, 2, 2): axis 0
Emit == Mode = "laws" \/ PrintT(<<"CASE", ToJson([
          x |-> x, y1 |-> y1,
          r1 |-> Trapz2(y1, x), r1u |-> Trapz2(y1, Unit(Len(x))),
          a2 |-> A2, ra2 |-> T2(A2, x, 0), b2 |-> B2, rb2 |-> T2(B2, x, 1),
          a3 |-> A3, ra3 |-> T3(A3, x, 1), c3 |-> C3, rc3 |-> T3(C3, x, 2), d3 |-> D3, rd3 |-> T3(D3, x, 0)])>>)
=============================================================================
