----------------------------- MODULE SnellProps -----------------------------
(* C08 (second half) -- Snell's law and the Fresnel amplitude coefficients on  *)
(* the RATIONAL points of the unit circle.  An incidence angle is a pair       *)
(* (s, c) = (sin theta, cos theta) with s^2 + c^2 = 1 and both rational        *)
(* (0, 3/5, 4/5, 5/13, 12/13, 1 ...); refractive indices are positive          *)
(* rationals.  Then  s2 = n1 s1 / n2  is rational, "total reflection" is the   *)
(* discrete outcome  s2 > 1, and whenever (s2, c2) is again a rational point   *)
(* of the circle the Fresnel coefficients                                      *)
(*     Rv = (n2 c1 - n1 c2) / (n2 c1 + n1 c2)                                   *)
(*     Rh = (n1 c1 - n2 c2) / (n1 c1 + n2 c2)                                   *)
(* are exact rationals.  For a complex n2 = a + ib only normal incidence is    *)
(* rational:  |R|^2 = ((a - n1)^2 + b^2) / ((a + n1)^2 + b^2).                  *)
(* TLC checks the laws the property states on every case of the catalogue and  *)
(* prints the exact expected values for the replay into typhon.physics.em.     *)
EXTENDS Rat, Sequences, FiniteSets, TLC, Json

CONSTANT Big                                            \* TRUE: the larger catalogue of the thorough tier
BaseCircle == {<<R(0), R(1)>>, <<Frac(3, 5), Frac(4, 5)>>, <<Frac(4, 5), Frac(3, 5)>>,
           <<Frac(5, 13), Frac(12, 13)>>, <<Frac(12, 13), Frac(5, 13)>>,
           <<Frac(7, 25), Frac(24, 25)>>, <<Frac(24, 25), Frac(7, 25)>>, <<R(1), R(0)>>}
MoreCircle == {<<Frac(8, 17), Frac(15, 17)>>, <<Frac(15, 17), Frac(8, 17)>>, <<Frac(20, 29), Frac(21, 29)>>,
               <<Frac(21, 29), Frac(20, 29)>>, <<Frac(9, 41), Frac(40, 41)>>, <<Frac(40, 41), Frac(9, 41)>>,
               <<Frac(28, 53), Frac(45, 53)>>, <<Frac(45, 53), Frac(28, 53)>>, <<Frac(11, 61), Frac(60, 61)>>,
               <<Frac(33, 65), Frac(56, 65)>>, <<Frac(16, 65), Frac(63, 65)>>, <<Frac(63, 65), Frac(16, 65)>>}
Circle == IF Big THEN BaseCircle \cup MoreCircle ELSE BaseCircle
BaseIndices == {R(1), Frac(3, 2), R(2), R(3), R(4), Frac(4, 3), Frac(3, 4), Frac(5, 4), Frac(13, 5), Frac(12, 5), Frac(36, 13)}
MoreIndices == {Frac(15, 8), Frac(8, 15), Frac(21, 20), Frac(20, 21), Frac(40, 9), Frac(17, 8), Frac(29, 20), Frac(7, 24),
                Frac(24, 7), Frac(133, 100), Frac(9, 10), Frac(10, 9), R(5), Frac(1, 2), Frac(7, 5)}
Indices == IF Big THEN BaseIndices \cup MoreIndices ELSE BaseIndices
Imag == {Frac(1, 2), R(1), R(3)}                       \* imaginary parts for the complex-n2 cases

OnCircle(p) == Add(Mul(p[1], p[1]), Mul(p[2], p[2])) = R(1)
ASSUME \A p \in Circle : OnCircle(p)

VARIABLES n1, n2, p1
Init == n1 \in Indices /\ n2 \in Indices /\ p1 \in Circle
Next == UNCHANGED <<n1, n2, p1>>

S2 == Div(Mul(n1, p1[1]), n2)
Reflected == Lt(R(1), S2)
Critical == S2 = R(1)                                  \* exactly at the critical angle: not judged (one ulp decides)
HasP2 == ~Reflected /\ \E p \in Circle : p[1] = S2
P2 == CHOOSE p \in Circle : p[1] = S2
Rv == Div(Sub(Mul(n2, p1[2]), Mul(n1, P2[2])), Add(Mul(n2, p1[2]), Mul(n1, P2[2])))
Rh == Div(Sub(Mul(n1, p1[2]), Mul(n2, P2[2])), Add(Mul(n1, p1[2]), Mul(n2, P2[2])))
Brewster == Mul(p1[1], n1) = Mul(p1[2], n2)            \* tan(theta1) = n2 / n1
Grazing == p1[2] = R(0)

\* --- laws -------------------------------------------------------------------
SnellLaw == ~Reflected => /\ Mul(n2, S2) = Mul(n1, p1[1])
                          /\ (Le(n1, n2) => Le(S2, p1[1]))          \* towards the normal in the denser medium
                          /\ Div(Mul(n2, S2), n1) = p1[1]           \* reversible light path
NoReflectionIntoDenser == Le(n1, n2) => ~Reflected
FresnelBounds == HasP2 /\ ~(Grazing /\ n1 = n2) =>
                    /\ Le(Mul(Rv, Rv), R(1)) /\ Le(Mul(Rh, Rh), R(1))
                    /\ (p1[1] = R(0) => AbsR(Rv) = AbsR(Rh) /\ Rv = Div(Sub(n2, n1), Add(n2, n1)))
                    /\ (Brewster => Rv = R(0))
                    /\ (Rv = R(0) => Brewster \/ n1 = n2)
                    /\ (Grazing => Rv = R(-1) /\ Rh = R(-1))
\* vacuity guards: the catalogue must contain Brewster incidences and total reflections
Interesting == {<<a, b, p>> \in Indices \X Indices \X Circle : Mul(p[1], a) = Mul(p[2], b) /\ a # b}
ASSUME Cardinality(Interesting) >= 4

ComplexCases == [a \in Indices, b \in Imag |->
                   Div(Add(Mul(Sub(a, n1), Sub(a, n1)), Mul(b, b)), Add(Mul(Add(a, n1), Add(a, n1)), Mul(b, b)))]
ComplexBound == \A a \in Indices, b \in Imag : Lt(ComplexCases[a, b], R(1))

Emit == PrintT(<<"CASE", ToJson([n1 |-> n1, n2 |-> n2, s1 |-> p1[1], c1 |-> p1[2], s2 |-> S2,
          reflected |-> Reflected, critical |-> Critical, hasp2 |-> HasP2 /\ ~(Grazing /\ n1 = n2),
          rv |-> IF HasP2 /\ ~(Grazing /\ n1 = n2) THEN Rv ELSE R(0),
          rh |-> IF HasP2 /\ ~(Grazing /\ n1 = n2) THEN Rh ELSE R(0),
          brewster |-> Brewster,
          cplx |-> IF p1[1] = R(0) /\ n2 = R(1)
                   THEN {<<a, b, ComplexCases[a, b]>> : a \in Indices, b \in Imag} ELSE {}])>>)
=============================================================================
