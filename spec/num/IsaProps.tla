------------------------------ MODULE IsaProps ------------------------------
(* C14 (third part) -- the International Standard Atmosphere as typhon tabulates *)
(* it: eight levels (geopotential height in m, pressure in Pa, temperature),     *)
(* temperature piecewise LINEAR in height between the levels and linearly        *)
(* continued beyond the first and the last one ("values exceeding this range are *)
(* linearly interpolated").  Heights are integers, temperatures are exact in     *)
(* 1/100 K, so the whole profile is rational.  In pressure coordinates the       *)
(* profile is linear in ln p, which is rational only AT the tabulated levels --  *)
(* there both addressings must give the tabulated temperature.                   *)
EXTENDS Rat, Sequences, TLC, Json

H == <<-610, 11000, 20000, 32000, 47000, 51000, 71000, 84852>>
T100 == <<29215, 21665, 21665, 22865, 27065, 27065, 21465, 18687>>       \* (t + 273.15) * 100
P10000 == <<1089000000, 226320000, 54749000, 8680200, 1109100, 669390, 39564, 3734>>   \* Pa * 10^4
N == Len(H)
Temp(i) == Frac(T100[i], 100)
Pres(i) == Frac(P10000[i], 10000)

\* the segment used for height z: the one containing it, the first / last one beyond the table
Seg(z) == IF z <= H[1] THEN 1 ELSE IF z >= H[N] THEN N - 1 ELSE CHOOSE i \in 1..N-1 : H[i] <= z /\ z < H[i+1]
Isa(z) == LET i == Seg(z) IN Add(Temp(i), Mul(Sub(Temp(i+1), Temp(i)), Frac(z - H[i], H[i+1] - H[i])))

Zs == {H[i] : i \in 1..N} \cup {(H[i] + H[i+1]) \div 2 : i \in 1..N-1} \cup {-2000, -611, 0, 1000, 85000, 90000, 100000}
VARIABLE z
Init == z \in Zs
Next == UNCHANGED z

AtLevels == \A i \in 1..N : Isa(H[i]) = Temp(i)
Between == (z > H[1] /\ z < H[N]) =>
              LET i == Seg(z) lo == IF Lt(Temp(i), Temp(i+1)) THEN Temp(i) ELSE Temp(i+1)
                              hi == IF Lt(Temp(i), Temp(i+1)) THEN Temp(i+1) ELSE Temp(i)
              IN Le(lo, Isa(z)) /\ Le(Isa(z), hi)
\* beyond the table the end segments continue: below the first level it gets warmer (troposphere lapse rate), above the
\* last level colder -- a clamped profile (constant beyond the table) violates this
Beyond == /\ (z < H[1] => Lt(Temp(1), Isa(z)))
          /\ (z > H[N] => Lt(Isa(z), Temp(N)))
          /\ (z > H[N] => Isa(z) = Add(Temp(N), Mul(Frac(T100[N] - T100[N-1], 100 * (H[N] - H[N-1])), R(z - H[N]))))
PressureDecreases == \A i \in 1..N-1 : Lt(Pres(i+1), Pres(i))
Emit == PrintT(<<"CASE", ToJson([z |-> z, t |-> Isa(z),
                                 level |-> IF \E i \in 1..N : H[i] = z THEN CHOOSE i \in 1..N : H[i] = z ELSE 0,
                                 p |-> IF \E i \in 1..N : H[i] = z THEN Pres(CHOOSE i \in 1..N : H[i] = z) ELSE R(0)])>>)
=============================================================================
