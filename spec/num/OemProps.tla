------------------------------- MODULE OemProps ------------------------------
(* C17 (partial) -- optimal-estimation matrices in exact rational arithmetic   *)
(* for state dimension n and measurement dimension m up to 3.                  *)
(* A matrix is a sequence of rows of rationals.                                *)
EXTENDS Rat, Sequences, FiniteSets, TLC, Json, Randomization

Rows(A) == Len(A)
Cols(A) == Len(A[1])
Mat(n, m, f(_, _)) == TLCEval([i \in 1..n |-> TLCEval([j \in 1..m |-> TLCEval(f(i, j))])])      \* eager: TLC's function values are lazy
Tr(A) == Mat(Cols(A), Rows(A), LAMBDA j, i : A[i][j])
MM(A, B) == Mat(Rows(A), Cols(B), LAMBDA i, j : SumSeq([k \in 1..Cols(A) |-> Mul(A[i][k], B[k][j])], Cols(A)))
MAdd(A, B) == Mat(Rows(A), Cols(A), LAMBDA i, j : Add(A[i][j], B[i][j]))
MSub(A, B) == Mat(Rows(A), Cols(A), LAMBDA i, j : Sub(A[i][j], B[i][j]))
Id(n) == Mat(n, n, LAMBDA i, j : IF i = j THEN R(1) ELSE R(0))
IntM(A) == Mat(Rows(A), Cols(A), LAMBDA i, j : R(A[i][j]))
\* delete row r and column c
Minor(A, r, c) == Mat(Rows(A) - 1, Cols(A) - 1, LAMBDA i, j : A[IF i < r THEN i ELSE i + 1][IF j < c THEN j ELSE j + 1])
RECURSIVE Det(_)
Det(A) == IF Rows(A) = 1 THEN A[1][1]
          ELSE SumSeq([j \in 1..Cols(A) |-> Mul(IF j % 2 = 1 THEN A[1][j] ELSE Neg(A[1][j]), Det(Minor(A, 1, j)))], Cols(A))
Cof(A, i, j) == IF Rows(A) = 1 THEN R(1)
                ELSE Mul(IF (i + j) % 2 = 0 THEN R(1) ELSE R(-1), Det(Minor(A, i, j)))
MInv(A) == LET d == TLCEval(Det(A)) IN Mat(Rows(A), Cols(A), LAMBDA i, j : Div(Cof(A, j, i), d))
MV(A, v) == TLCEval([i \in 1..Rows(A) |-> SumSeq([k \in 1..Cols(A) |-> Mul(A[i][k], v[k])], Cols(A))])

\* ---- the retrieval quantities -------------------------------------------------
Post(K, Sa, Sy) == MInv(MAdd(MM(MM(Tr(K), MInv(Sy)), K), MInv(Sa)))                 \* S   (n-form)
GainN(K, Sa, Sy) == MM(MM(Post(K, Sa, Sy), Tr(K)), MInv(Sy))                         \* G = S K^T Sy^-1
GainM(K, Sa, Sy) == MM(MM(Sa, Tr(K)), MInv(MAdd(MM(MM(K, Sa), Tr(K)), Sy)))          \* G = Sa K^T (K Sa K^T + Sy)^-1
Avk(K, Sa, Sy) == MM(GainN(K, Sa, Sy), K)

Symmetric(A) == A = Tr(A)
\* all principal minors >= 0 (n <= 3): positive semidefinite for a symmetric matrix
PrincipalSets(n) == SUBSET (1..n) \ {{}}
Sub2(A, I) == LET idx == CHOOSE f \in [1..Cardinality(I) -> I] : \A a, b \in 1..Cardinality(I) : a < b => f[a] < f[b]
              IN Mat(Cardinality(I), Cardinality(I), LAMBDA i, j : A[idx[i]][idx[j]])
PSD(A) == \A I \in PrincipalSets(Rows(A)) : Le(R(0), Det(Sub2(A, I)))
PD(A) == \A k \in 1..Rows(A) : Lt(R(0), Det(Sub2(A, 1..k)))

CONSTANTS N, M, NSample
SPD(n) == IF n = 1 THEN {<<<<1>>>>, <<<<4>>>>}
          ELSE IF n = 2 THEN {<<<<1, 0>>, <<0, 1>>>>, <<<<1, 0>>, <<0, 4>>>>, <<<<2, 1>>, <<1, 2>>>>}
          ELSE {<<<<1, 0, 0>>, <<0, 1, 0>>, <<0, 0, 1>>>>, <<<<4, 0, 0>>, <<0, 1, 0>>, <<0, 0, 2>>>>, <<<<2, 1, 0>>, <<1, 2, 1>>, <<0, 1, 2>>>>}
Ks == [1..M -> [1..N -> -1..2]]
VARIABLES K, Sa, Sy
Init == /\ K \in (IF NSample = 0 THEN Ks ELSE RandomSubset(NSample, Ks))
        /\ Sa \in SPD(N) /\ Sy \in SPD(M)
Next == UNCHANGED <<K, Sa, Sy>>

Identities == LET k == IntM(K)  sa == IntM(Sa)  sy == IntM(Sy)
                  S == Post(k, sa, sy)  G == MM(MM(S, Tr(k)), MInv(sy))  A == MM(G, k)
              IN /\ G = GainM(k, sa, sy)                                    \* n-form = m-form
                 /\ A = MSub(Id(N), MM(S, MInv(sa)))                         \* A = G K = I - S Sa^-1
                 /\ Symmetric(S) /\ PD(S)
                 /\ PSD(MSub(sa, S))                                         \* S is not larger than Sa
\* eigenvalues of A in [0, 1): A is similar to a symmetric PSD matrix, so it suffices that the characteristic
\* polynomials of A and I - A have the sign pattern of PSD resp. PD matrices (principal minors of the similar
\* symmetric matrix equal the coefficients): all coefficient sums e_k(A) >= 0, e_k(I - A) > 0
E1(X) == SumSeq([i \in 1..Rows(X) |-> X[i][i]], Rows(X))
E2(X) == SumSeq([p \in 1..3 |-> IF Rows(X) < 2 \/ (Rows(X) = 2 /\ p > 1) THEN R(0)
                                 ELSE LET I == IF p = 1 THEN {1, 2} ELSE IF p = 2 THEN {1, 3} ELSE {2, 3} IN Det(Sub2(X, I))], 3)
Spectrum == LET A == Avk(IntM(K), IntM(Sa), IntM(Sy))
                B == MSub(Id(N), A)
            IN /\ Le(R(0), E1(A)) /\ Le(R(0), Det(A)) /\ (N >= 2 => Le(R(0), E2(A)))
               /\ Lt(R(0), E1(B)) /\ Lt(R(0), Det(B)) /\ (N >= 2 => Lt(R(0), E2(B)))
\* scale covariance: multiplying BOTH covariances by c multiplies S by c and leaves G and A unchanged
\* (the harness uses it with c = 2^-40: correlated covariances at a very small absolute scale)
Scaled(X, c) == Mat(Rows(X), Cols(X), LAMBDA i, j : Mul(X[i][j], c))
ScaleLaw == LET k == IntM(K)  sa == IntM(Sa)  sy == IntM(Sy)  c == Frac(1, 4)
            IN /\ Post(k, Scaled(sa, c), Scaled(sy, c)) = Scaled(Post(k, sa, sy), c)
               /\ GainN(k, Scaled(sa, c), Scaled(sy, c)) = GainN(k, sa, sy)
\* block law: independent sub-problems side by side (block-diagonal K, Sa, Sy) have block-diagonal S, G and A made of the
\* sub-problems' own matrices.  The harness composes up to 14 printed cases into problems with m up to 40 measurements and
\* runs HISTORIES of such problems that agree in their outer blocks and differ in the middle ones.
BD(A, B) == Mat(Rows(A) + Rows(B), Cols(A) + Cols(B),
                LAMBDA i, j : IF i <= Rows(A) /\ j <= Cols(A) THEN A[i][j]
                              ELSE IF i > Rows(A) /\ j > Cols(A) THEN B[i - Rows(A)][j - Cols(A)] ELSE R(0))
BlockLaw == LET k == IntM(K)  sa == IntM(Sa)  sy == IntM(Sy)
                k2 == <<<<R(2)>>>>  sa2 == <<<<R(4)>>>>  sy2 == <<<<R(1)>>>>
            IN /\ Post(BD(k, k2), BD(sa, sa2), BD(sy, sy2)) = BD(Post(k, sa, sy), Post(k2, sa2, sy2))
               /\ GainN(BD(k2, k), BD(sa2, sa), BD(sy2, sy)) = BD(GainN(k2, sa2, sy2), GainN(k, sa, sy))
\* a family with an unobserved state direction and measurement noise c (closed forms, checked for rational c):
\*   K = (1 0), Sa = I, Sy = (c):   S = diag(c/(1+c), 1),  G = (1/(1+c), 0)^T,  A = diag(1/(1+c), 0)
LimitFamily == \A c \in {R(1), Frac(1, 2), Frac(1, 100)} :
    LET k == <<<<R(1), R(0)>>>>  sa == Id(2)  sy == <<<<c>>>>  d == Add(R(1), c)
    IN /\ Post(k, sa, sy) = <<<<Div(c, d), R(0)>>, <<R(0), R(1)>>>>
       /\ GainN(k, sa, sy) = <<<<Inv(d)>>, <<R(0)>>>>
       /\ Avk(k, sa, sy) = <<<<Inv(d), R(0)>>, <<R(0), R(0)>>>>

\* ... and an OVER-determined family (two measurements of one state, K of full column rank) with noise c on both:
\*   K = (1 1)^T, Sa = (1), Sy = c I:   S = c/(2+c),  G = (1/(2+c), 1/(2+c)),  A = 2/(2+c)  -> 1 for vanishing noise
LimitFamilyOver == \A c \in {R(1), Frac(1, 2), Frac(1, 100)} :
    LET k == <<<<R(1)>>, <<R(1)>>>>  sa == Id(1)  sy == <<<<c, R(0)>>, <<R(0), c>>>>  d == Add(R(2), c)
    IN /\ Post(k, sa, sy) = <<<<Div(c, d)>>>>
       /\ GainN(k, sa, sy) = <<<<Inv(d), Inv(d)>>>>
       /\ GainM(k, sa, sy) = <<<<Inv(d), Inv(d)>>>>
       /\ Avk(k, sa, sy) = <<<<Div(R(2), d)>>>>

Emit == LET k == IntM(K)  sa == IntM(Sa)  sy == IntM(Sy)
            S == Post(k, sa, sy)  G == MM(MM(S, Tr(k)), MInv(sy))  A == MM(G, k)
        IN PrintT(<<"CASE", ToJson([K |-> K, Sa |-> Sa, Sy |-> Sy, S |-> S, G |-> G, A |-> A,
             smooth |-> MV(A, [i \in 1..N |-> R(i)]), noise |-> MV(G, [i \in 1..M |-> R(IF i % 2 = 1 THEN 1 ELSE -1)])])>>)
=============================================================================
