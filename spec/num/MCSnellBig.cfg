CONSTANT Big = TRUE
INIT Init
NEXT Next
INVARIANT SnellLaw
INVARIANT NoReflectionIntoDenser
INVARIANT FresnelBounds
INVARIANT ComplexBound
INVARIANT Emit
