------------------------------ MODULE BmciProps -----------------------------
(* C18 (partial) -- BMCI in the two regimes where the Gaussian weights are     *)
(* exactly 0/1 ("spike": S = 1e-6 D, only exact matches count) or equal        *)
(* ("flat": S = 1e12 D, every entry counts alike).  The database is a sequence *)
(* of <<y, x>> with y a tuple of integers (channels) and x an integer.         *)
(* Nothing below mentions the ORDER of the database: permutation invariance.   *)
EXTENDS Rat, Sequences, FiniteSets, FiniteSetsExt, TLC, Json, Randomization

Sel(db, y, regime) == IF regime = "spike" THEN {i \in 1..Len(db) : db[i][1] = y} ELSE 1..Len(db)
RECURSIVE SumX(_, _)
SumX(db, I) == IF I = {} THEN 0 ELSE LET i == CHOOSE j \in I : TRUE IN db[i][2] + SumX(db, I \ {i})
RECURSIVE SumX2(_, _)
SumX2(db, I) == IF I = {} THEN 0 ELSE LET i == CHOOSE j \in I : TRUE IN db[i][2] * db[i][2] + SumX2(db, I \ {i})
Mean(db, I) == Frac(SumX(db, I), Cardinality(I))
\* variance = E[x^2] - mean^2  (the square of the reported standard deviation)
Var(db, I) == Sub(Frac(SumX2(db, I), Cardinality(I)), Mul(Mean(db, I), Mean(db, I)))
MinX(db, I) == Min({db[i][2] : i \in I})
MaxX(db, I) == Max({db[i][2] : i \in I})
\* the x values of the selection in ascending order (with multiplicity)
RECURSIVE SortedX(_, _)
SortedX(db, I) == IF I = {} THEN <<>>
                  ELSE LET i == CHOOSE j \in I : \A l \in I : db[j][2] <= db[l][2] IN <<db[i][2]>> \o SortedX(db, I \ {i})
Cdf(db, I) == [r \in 1..Cardinality(I) |-> Frac(r, Cardinality(I))]      \* cumulative share after the r-th smallest x

\* what the property demands of cdf() and predict_quantiles() (not the interpolation rule itself)
CdfOK(xs, cum, db, I) == /\ xs = SortedX(db, I) /\ Len(cum) = Len(xs)
                         /\ \A r \in 1..Len(cum)-1 : Le(cum[r], cum[r+1])
                         /\ cum[Len(cum)] = R(1)
QuantilesOK(q, db) == /\ \A r \in 1..Len(q)-1 : Le(q[r], q[r+1])
                      /\ \A r \in 1..Len(q) : Le(R(MinX(db, 1..Len(db))), q[r]) /\ Le(q[r], R(MaxX(db, 1..Len(db))))

\* ---- x2_max: which entries may NOT be left out -------------------------------------------------------
\* chi-square of entry yi for observation y and inverse covariance Sinv (rational, symmetric)
Chi2(y, yi, Sinv) == SumSeq([a \in 1..Len(y) |-> SumSeq([b \in 1..Len(y) |->
                         Mul(Mul(R(y[a] - yi[a]), Sinv[a][b]), R(y[b] - yi[b]))], Len(y))], Len(y))
MustKeep(db, y, x2, Sinv) == {i \in 1..Len(db) : Le(Chi2(y, db[i][1], Sinv), x2)}
\* inverse covariances of the catalogue the harness uses (index = position in the catalogue)
Sinvs(m) == IF m = 1 THEN <<<<<<R(1)>>>>, <<<<Frac(1, 4)>>>>>>
            ELSE << <<<<R(1), R(0)>>, <<R(0), R(1)>>>>,
                    <<<<R(1), R(0)>>, <<R(0), Frac(1, 4)>>>>,
                    <<<<Frac(2, 3), Frac(-1, 3)>>, <<Frac(-1, 3), Frac(2, 3)>>>>,          \* inverse of [[2,1],[1,2]]
                    <<<<Frac(1, 3), Frac(-1, 3)>>, <<Frac(-1, 3), Frac(5, 6)>>>> >>         \* inverse of [[5,2],[2,2]]
X2s == <<Frac(1, 2), R(2), R(5)>>

CONSTANTS MChan, MaxN, NSample
Ys == IF MChan = 1 THEN {<<a>> : a \in 0..2} ELSE {<<a, b>> : a \in 0..2, b \in 0..1}
DBs == UNION {[1..n -> Ys \X (0..3)] : n \in 1..MaxN}
VARIABLES db, yobs
Init == db \in RandomSubset(NSample, DBs) /\ yobs \in Ys \cup {IF MChan = 1 THEN <<7>> ELSE <<7, 7>>}
Next == UNCHANGED <<db, yobs>>
\* model-level laws: variance is non-negative, the mean lies within the selected x range
Laws == \A regime \in {"spike", "flat"} : LET I == Sel(db, yobs, regime) IN
           I # {} => /\ Le(R(0), Var(db, I)) /\ Le(R(MinX(db, I)), Mean(db, I)) /\ Le(Mean(db, I), R(MaxX(db, I)))
                     /\ CdfOK(SortedX(db, I), Cdf(db, I), db, I)
Row(regime) == LET I == Sel(db, yobs, regime) IN
    IF I = {} THEN [empty |-> TRUE, mean |-> R(0), var |-> R(0), xs |-> <<>>, cum |-> <<>>, lo |-> 0, hi |-> 0]
    ELSE [empty |-> FALSE, mean |-> Mean(db, I), var |-> Var(db, I), xs |-> SortedX(db, I), cum |-> Cdf(db, I),
          \* the property bounds the quantiles by the x range of the WHOLE database
          lo |-> MinX(db, 1..Len(db)), hi |-> MaxX(db, 1..Len(db))]
Emit == PrintT(<<"CASE", ToJson([db |-> db, y |-> yobs, spike |-> Row("spike"), flat |-> Row("flat"),
          must |-> [d \in 1..Len(Sinvs(MChan)) |-> [q \in 1..3 |-> MustKeep(db, yobs, X2s[q], Sinvs(MChan)[d])]]])>>)
=============================================================================
