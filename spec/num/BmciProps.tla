------------------------------ MODULE BmciProps -----------------------------
(* C18 (partial) -- BMCI in the two regimes where the Gaussian weights are     *)
(* exactly 0/1 ("spike": S = 1e-6 D, only exact matches count) or equal        *)
(* ("flat": S = 1e12 D, every entry counts alike).  The database is a sequence *)
(* of <<y, x>> with y a tuple of integers (channels) and x an integer.         *)
(* Nothing below mentions the ORDER of the database: permutation invariance.   *)
EXTENDS Rat, Sequences, FiniteSets, FiniteSetsExt, TLC, Json, Randomization

Sel(db, y, regime) == IF regime = "spike" THEN {i \in 1..Len(db) : db[i][1] = y} ELSE 1..Len(db)
RECURSIVE SumX(_, _)
SumX(db, I) == IF I = {} THEN 0 ELSE LET i == CHOOSE j \in I : TRUE IN db[i][2] + SumX(db, I \ {i})
RECURSIVE SumX2(_, _)
SumX2(db, I) == IF I = {} THEN 0 ELSE LET i == CHOOSE j \in I : TRUE IN db[i][2] * db[i][2] + SumX2(db, I \ {i})
Mean(db, I) == Frac(SumX(db, I), Cardinality(I))
\* variance = E[x^2] - mean^2  (the square of the reported standard deviation)
Var(db, I) == Sub(Frac(SumX2(db, I), Cardinality(I)), Mul(Mean(db, I), Mean(db, I)))
MinX(db, I) == Min({db[i][2] : i \in I})
MaxX(db, I) == Max({db[i][2] : i \in I})
\* the x values of the selection in ascending order (with multiplicity)
RECURSIVE SortedX(_, _)
SortedX(db, I) == IF I = {} THEN <<>>
                  ELSE LET i == CHOOSE j \in I : \A l \in I : db[j][2] <= db[l][2] IN <<db[i][2]>> \o SortedX(db, I \ {i})
Cdf(db, I) == [r \in 1..Cardinality(I) |-> Frac(r, Cardinality(I))]      \* cumulative share after the r-th smallest x

\* what the property demands of cdf() and predict_quantiles() (not the interpolation rule itself)
CdfOK(xs, cum, db, I) == /\ xs = SortedX(db, I) /\ Len(cum) = Len(xs)
                         /\ \A r \in 1..Len(cum)-1 : Le(cum[r], cum[r+1])
                         /\ cum[Len(cum)] = R(1)
QuantilesOK(q, db) == /\ \A r \in 1..Len(q)-1 : Le(q[r], q[r+1])
                      /\ \A r \in 1..Len(q) : Le(R(MinX(db, 1..Len(db))), q[r]) /\ Le(q[r], R(MaxX(db, 1..Len(db))))

\* ---- x2_max: which entries may NOT be left out -------------------------------------------------------
\* chi-square of entry yi for observation y and inverse covariance Sinv (rational, symmetric)
Chi2(y, yi, Sinv) == SumSeq([a \in 1..Len(y) |-> SumSeq([b \in 1..Len(y) |->
                         Mul(Mul(R(y[a] - yi[a]), Sinv[a][b]), R(y[b] - yi[b]))], Len(y))], Len(y))
MustKeep(db, y, x2, Sinv) == {i \in 1..Len(db) : Le(Chi2(y, db[i][1], Sinv), x2)}
\* inverse covariances of the catalogue the harness uses (index = position in the catalogue)
\* (the last entries have eigenvalues well below 1/2: a search window that is too narrow only for small variances shows there)
Sinvs(m) == IF m = 1 THEN <<<<<<R(1)>>>>, <<<<Frac(1, 4)>>>>, <<<<R(4)>>>>>>
            ELSE IF m = 3 THEN
                 << <<<<R(1), R(0), R(0)>>, <<R(0), R(1), R(0)>>, <<R(0), R(0), R(1)>>>>,
                    <<<<R(1), R(0), R(0)>>, <<R(0), Frac(1, 4), R(0)>>, <<R(0), R(0), Frac(1, 9)>>>>,     \* inverse of diag(1, 4, 9)
                    \* equal noise with a common correlation: a REPEATED eigenvalue (4, 1, 1) -- inverse of I + 11^T
                    <<<<Frac(3, 4), Frac(-1, 4), Frac(-1, 4)>>, <<Frac(-1, 4), Frac(3, 4), Frac(-1, 4)>>, <<Frac(-1, 4), Frac(-1, 4), Frac(3, 4)>>>>,
                    \* eigenvalues (4, 4, 1) -- inverse of 4 I - 11^T
                    <<<<Frac(1, 2), Frac(1, 4), Frac(1, 4)>>, <<Frac(1, 4), Frac(1, 2), Frac(1, 4)>>, <<Frac(1, 4), Frac(1, 4), Frac(1, 2)>>>> >>
            ELSE << <<<<R(1), R(0)>>, <<R(0), R(1)>>>>,
                    <<<<R(1), R(0)>>, <<R(0), Frac(1, 4)>>>>,
                    <<<<Frac(2, 3), Frac(-1, 3)>>, <<Frac(-1, 3), Frac(2, 3)>>>>,          \* inverse of [[2,1],[1,2]]
                    <<<<Frac(1, 3), Frac(-1, 3)>>, <<Frac(-1, 3), Frac(5, 6)>>>>,          \* inverse of [[5,2],[2,2]]
                    <<<<R(4), R(0)>>, <<R(0), R(1)>>>>,                                    \* inverse of diag(1/4, 1)
                    <<<<Frac(16, 3), Frac(-8, 3)>>, <<Frac(-8, 3), Frac(16, 3)>>>> >>      \* inverse of [[1/4,1/8],[1/8,1/4]]
X2s == <<Frac(1, 2), R(2), R(5), R(8)>>

CONSTANTS MChan, MaxN, NSample
Ys == IF MChan = 1 THEN {<<a>> : a \in 0..2} ELSE IF MChan = 3 THEN {<<a, b, c>> : a \in 0..1, b \in 0..1, c \in 0..1}
      ELSE {<<a, b>> : a \in 0..2, b \in 0..1}
DBs == UNION {[1..n -> Ys \X (0..(IF MChan = 3 THEN 2 ELSE 3))] : n \in 1..MaxN}    \* (the set must stay below 10^6 elements)
\* databases placed symmetrically (entries that are permutations of one another, or mirror images about an observation):
\* for suitable observations and covariances all their entries lie on ONE chi-square shell -- TLC decides for which (OneShell)
ShellDBs == CASE MChan = 3 ->
                 {<< <<<<1, 0, 0>>, xs[1]>>, <<<<0, 1, 0>>, xs[2]>>, <<<<0, 0, 1>>, xs[3]>> >> : xs \in {<<0, 1, 2>>, <<2, 0, 1>>, <<1, 1, 0>>}}
                 \cup {<< <<<<1, 1, 0>>, xs[1]>>, <<<<0, 1, 1>>, xs[2]>>, <<<<1, 0, 1>>, xs[3]>> >> : xs \in {<<0, 1, 2>>, <<2, 2, 0>>}}
            [] MChan = 2 ->
                 {<< <<<<1, 0>>, a>>, <<<<0, 1>>, b>> >> : a \in {0, 3}, b \in {1, 2}}
                 \cup {<< <<<<0, 0>>, a>>, <<<<2, 0>>, b>> >> : a \in {0, 3}, b \in {1}}
                 \cup {<< <<<<0, 1>>, 0>>, <<<<2, 1>>, 3>>, <<<<0, 1>>, 1>> >>}
            [] OTHER -> {<< <<<<0>>, 0>>, <<<<2>>, 3>> >>, << <<<<0>>, 1>>, <<<<2>>, 1>>, <<<<2>>, 3>> >>}
VARIABLES db, yobs
Init == db \in RandomSubset(NSample, DBs) \cup ShellDBs /\ yobs \in Ys \cup {IF MChan = 1 THEN <<7>> ELSE IF MChan = 3 THEN <<7, 7, 7>> ELSE <<7, 7>>}
Next == UNCHANGED <<db, yobs>>
\* model-level laws: variance is non-negative, the mean lies within the selected x range
Laws == \A regime \in {"spike", "flat"} : LET I == Sel(db, yobs, regime) IN
           I # {} => /\ Le(R(0), Var(db, I)) /\ Le(R(MinX(db, I)), Mean(db, I)) /\ Le(Mean(db, I), R(MaxX(db, I)))
                     /\ CdfOK(SortedX(db, I), Cdf(db, I), db, I)
Row(regime) == LET I == Sel(db, yobs, regime) IN
    IF I = {} THEN [empty |-> TRUE, mean |-> R(0), var |-> R(0), xs |-> <<>>, cum |-> <<>>, lo |-> 0, hi |-> 0]
    ELSE [empty |-> FALSE, mean |-> Mean(db, I), var |-> Var(db, I), xs |-> SortedX(db, I), cum |-> Cdf(db, I),
          \* the property bounds the quantiles by the x range of the WHOLE database
          lo |-> MinX(db, 1..Len(db)), hi |-> MaxX(db, 1..Len(db))]
\* genuinely Gaussian weights exp(-chi2/2) are irrational -- but entries with EQUAL chi-square have equal weights: when the
\* whole database is at one chi-square from the observation the estimate is the plain mean / spread, whatever S is
OneShell(d) == Cardinality({Chi2(yobs, db[i][1], Sinvs(MChan)[d]) : i \in 1..Len(db)}) = 1
Emit == PrintT(<<"CASE", ToJson([db |-> db, y |-> yobs, spike |-> Row("spike"), flat |-> Row("flat"),
          shell |-> [d \in 1..Len(Sinvs(MChan)) |-> OneShell(d)],
          chi2 |-> [d \in 1..Len(Sinvs(MChan)) |-> Chi2(yobs, db[1][1], Sinvs(MChan)[d])],
          must |-> [d \in 1..Len(Sinvs(MChan)) |-> [q \in 1..Len(X2s) |-> MustKeep(db, yobs, X2s[q], Sinvs(MChan)[d])]]])>>)
=============================================================================
