----------------------------- MODULE ScoresProps ----------------------------
(* C19 -- retrieval scores as exact rational functions.                        *)
EXTENDS Rat, Sequences, FiniteSets, TLC, Json, Randomization

\* pinball loss of estimate e for observation o at fraction tau (a rational)
Pinball(tau, e, o) == IF e < o THEN Mul(tau, R(o - e)) ELSE Mul(Sub(R(1), tau), R(e - o))
\* the same loss for a whole-number estimate e and the observation o + 1/2 (estimates kept in an integer type, observations not)
PinballHalf(tau, e, o) == IF e <= o THEN Mul(tau, Frac(2 * (o - e) + 1, 2)) ELSE Mul(Sub(R(1), tau), Frac(2 * (e - o) - 1, 2))
MeanPinball(tau, c, s) == Div(SumSeq([i \in 1..Len(s) |-> Pinball(tau, c, s[i])], Len(s)), R(Len(s)))

\* q is a tau-quantile of the sample: #{x < q}/n <= tau <= #{x <= q}/n
Below(s, q) == Cardinality({i \in 1..Len(s) : s[i] < q})
AtMost(s, q) == Cardinality({i \in 1..Len(s) : s[i] <= q})
IsQuantile(tau, s, q) == Le(Frac(Below(s, q), Len(s)), tau) /\ Le(tau, Frac(AtMost(s, q), Len(s)))

\* mape / bias in percent for predictions p and truths t (sequences of rationals, t # 0)
Mape(p, t) == Div(SumSeq([i \in 1..Len(t) |-> Div(Mul(R(100), AbsR(Sub(t[i], p[i]))), AbsR(t[i]))], Len(t)), R(Len(t)))
Bias(p, t) == Div(SumSeq([i \in 1..Len(t) |-> Div(Mul(R(100), Sub(p[i], t[i])), t[i])], Len(t)), R(Len(t)))

CONSTANTS V, MaxN, Mode, NSample      \* sample values 0..V; Mode "theorems" | "cases"
Taus == {Frac(k, 8) : k \in 1..7}
Samples == UNION {[1..n -> 0..V] : n \in 1..MaxN}

VARIABLES s, tau, est
Init == IF Mode = "theorems"
        THEN s \in Samples /\ tau \in Taus /\ est = <<>>
        ELSE /\ s \in RandomSubset(NSample, Samples) /\ tau \in {Frac(1, 8), Frac(1, 2), Frac(3, 4)}
             /\ est \in RandomSubset(3, [1..Len(s) -> 0..V])
Next == UNCHANGED <<s, tau, est>>

\* ---- theorems (Mode = "theorems") ----------------------------------------
Cands == 0..V
Best == {c \in Cands : \A d \in Cands : Le(MeanPinball(tau, c, s), MeanPinball(tau, d, s))}
NonNegative == \A c \in Cands, i \in 1..Len(s) : ~Lt(Pinball(tau, c, s[i]), R(0))
ZeroIffEqual == \A c \in Cands, i \in 1..Len(s) : IsZero(Pinball(tau, c, s[i])) <=> c = s[i]
\* the constant minimising the mean score is a tau-quantile (integer candidates 0..V contain all sample points,
\* and the mean score is convex piecewise linear with kinks only at sample points)
ProperScore == /\ \E c \in Best : IsQuantile(tau, s, c)
               /\ \A c \in Best : (\E i \in 1..Len(s) : s[i] = c) => IsQuantile(tau, s, c)
               /\ \A q \in Cands : (IsQuantile(tau, s, q) /\ \E i \in 1..Len(s) : s[i] = q) => q \in Best
\* p percent too high / too low uniformly (truth values s[i] + 1 are positive)
T1 == [i \in 1..Len(s) |-> s[i] + 1]
Truth == [i \in 1..Len(s) |-> R(T1[i])]
Shift(num, den) == [i \in 1..Len(s) |-> Mul(R(T1[i]), Frac(num, den))]
PercentLaws == /\ Mape(Truth, Truth) = R(0) /\ Bias(Truth, Truth) = R(0)
               /\ \A p \in {25, 50} : /\ Mape(Shift(100 + p, 100), Truth) = R(p)
                                     /\ Bias(Shift(100 + p, 100), Truth) = R(p)
                                     /\ Mape(Shift(100 - p, 100), Truth) = R(p)
                                     /\ Bias(Shift(100 - p, 100), Truth) = R(-p)
\* common scale and permutation invariance are visible in the definitions: each term is a ratio, the sum is symmetric
\* (negative factors and factors that differ from sample to sample included: truths of either sign, mixed signs)
ScaleLaw == /\ \A k \in {2, 3, -1, -2} : LET sc(v) == [i \in 1..Len(v) |-> Mul(v[i], R(k))]
                              IN /\ Mape(sc(Shift(125, 100)), sc(Truth)) = Mape(Shift(125, 100), Truth)
                                 /\ Bias(sc(Shift(75, 100)), sc(Truth)) = Bias(Shift(75, 100), Truth)
            /\ LET alt(v) == [i \in 1..Len(v) |-> Mul(v[i], R(IF i % 2 = 1 THEN -2 ELSE 1))]
               IN /\ Mape(alt(Shift(125, 100)), alt(Truth)) = R(25) /\ Bias(alt(Shift(125, 100)), alt(Truth)) = R(25)
                  /\ Mape(alt(Shift(50, 100)), alt(Truth)) = R(50) /\ Bias(alt(Shift(50, 100)), alt(Truth)) = R(-50)

\* ---- replay cases (Mode = "cases") ----------------------------------------
\* est[i] is the estimate for observation s[i]; three fractions at once give the (n, k) shape
TauSet == <<Frac(1, 8), Frac(1, 2), Frac(3, 4)>>
Emit == Mode # "cases" \/ PrintT(<<"CASE", ToJson([
           obs |-> s, est |-> est, taus |-> TauSet,
           score |-> [i \in 1..Len(s) |-> [k \in 1..3 |-> Pinball(TauSet[k], est[i], s[i])]],
           scoreh |-> [i \in 1..Len(s) |-> [k \in 1..3 |-> PinballHalf(TauSet[k], est[i], s[i])]],
           mean |-> [k \in 1..3 |-> Div(SumSeq([i \in 1..Len(s) |-> Pinball(TauSet[k], est[i], s[i])], Len(s)), R(Len(s)))],
           truth |-> T1,
           mape |-> Mape([i \in 1..Len(s) |-> R(est[i])], Truth),
           bias |-> Bias([i \in 1..Len(s) |-> R(est[i])], Truth),
           quant |-> [k \in 1..3 |-> {q \in 0..V : IsQuantile(TauSet[k], s, q)}],
           best |-> [k \in 1..3 |-> {c \in 0..V : \A d \in 0..V : Le(MeanPinball(TauSet[k], c, s), MeanPinball(TauSet[k], d, s))}]])>>)
=============================================================================
