---- MODULE MCEm ----
EXTENDS EmUnitsProps
mcCs == {R(3), Frac(1, 2)}
mcKs == {Frac(1, 2), R(2)}
====
