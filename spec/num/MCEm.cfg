CONSTANTS
Cs <- mcCs
Ks <- mcKs
INIT Init
NEXT Next
INVARIANT UnitInverses
INVARIANT RjLaws
INVARIANT RjHomogeneous
INVARIANT DensityLaws
INVARIANT Emit
