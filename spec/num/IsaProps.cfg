INIT Init
NEXT Next
INVARIANT AtLevels
INVARIANT Between
INVARIANT Beyond
INVARIANT PressureDecreases
INVARIANT Emit
