CONSTANT Big = TRUE
INIT Init
NEXT Next
INVARIANT Inverses
INVARIANT Routes
INVARIANT ZeroAndMonotone
INVARIANT RhInverse
INVARIANT BlendLogic
INVARIANT LapseLaws
INVARIANT Emit
