--------------------------------- MODULE Rat --------------------------------
(* Exact rational arithmetic for the numeric properties: a rational is a pair  *)
(* <<num, den>> with den > 0, kept in lowest terms.  TLC's integers are 32 bit *)
(* and overflow loudly, so the grids are chosen small.                         *)
EXTENDS Integers

RECURSIVE GCD(_, _)
GCD(a, b) == IF b = 0 THEN (IF a < 0 THEN -a ELSE a) ELSE GCD(b, a % b)
AbsI(x) == IF x < 0 THEN -x ELSE x
Norm(n, d) == LET s == IF d < 0 THEN -1 ELSE 1
                  g == GCD(AbsI(n), AbsI(d))
              IN IF n = 0 THEN <<0, 1>> ELSE <<(s * n) \div g, (s * d) \div g>>
R(n) == <<n, 1>>
Frac(n, d) == Norm(n, d)
\* (denominators are combined through their lcm and products are cross-cancelled first, so that
\*  intermediate values stay small: TLC integers are 32 bit)
Add(a, b) == LET g == GCD(a[2], b[2])  l == (a[2] \div g) * b[2]
             IN Norm(a[1] * (l \div a[2]) + b[1] * (l \div b[2]), l)
Neg(a) == <<-a[1], a[2]>>
Sub(a, b) == Add(a, Neg(b))
Mul(a, b) == IF a[1] = 0 \/ b[1] = 0 THEN <<0, 1>>
             ELSE LET g1 == GCD(AbsI(a[1]), b[2])  g2 == GCD(AbsI(b[1]), a[2])
                  IN Norm((a[1] \div g1) * (b[1] \div g2), (a[2] \div g2) * (b[2] \div g1))
Inv(a) == Norm(a[2], a[1])
Div(a, b) == Mul(a, Inv(b))
\* order: compared through the continued-fraction expansions (integer parts first, then the
\* reciprocals of the remainders with the roles exchanged), so that no product or lcm is formed
\* and the comparison cannot overflow whatever the denominators are
RECURSIVE LtNonNeg(_, _, _, _)
LtNonNeg(an, ad, bn, bd) ==            \* an/ad < bn/bd  for an, bn >= 0 and ad, bd > 0
    LET qa == an \div ad  qb == bn \div bd  ra == an % ad  rb == bn % bd
    IN IF qa # qb THEN qa < qb
       ELSE IF rb = 0 THEN FALSE
       ELSE IF ra = 0 THEN TRUE
       ELSE LtNonNeg(bd, rb, ad, ra)
Lt(a, b) == IF a[1] < 0 /\ b[1] >= 0 THEN TRUE
            ELSE IF a[1] >= 0 /\ b[1] < 0 THEN FALSE
            ELSE IF a[1] >= 0 THEN LtNonNeg(a[1], a[2], b[1], b[2])
            ELSE LtNonNeg(-b[1], b[2], -a[1], a[2])
Le(a, b) == a = b \/ Lt(a, b)
Eq(a, b) == a = b
AbsR(a) == <<AbsI(a[1]), a[2]>>
IsZero(a) == a[1] = 0

RECURSIVE SumUpTo(_, _)
SumUpTo(s, n) == IF n = 0 THEN <<0, 1>> ELSE Add(s[n], SumUpTo(s, n - 1))
\* sum of a sequence (function on 1..n) of rationals
SumSeq(s, n) == SumUpTo(s, n)
=============================================================================
