---- MODULE RatTest ----
EXTENDS Rat, TLC
Q == {Frac(n, d) : n \in -6..6, d \in 1..7}
ASSUME \A a \in Q, b \in Q : Lt(a, b) = (a[1] * b[2] < b[1] * a[2]) /\ Le(a, b) = (a[1] * b[2] <= b[1] * a[2])
ASSUME Lt(Frac(18, 30408686), Frac(18, 30408685))
ASSUME PrintT("rat-order-ok")
====
