------------------------------ MODULE PoolDesign ----------------------------
(* C10 -- implementation-shaped model of FileSet.map / imap on an executor.    *)
(* Executor: FIFO work queue, at most W running tasks, a running task may      *)
(* finish at any time (that is the schedule).  Caller:                         *)
(*   map   submits everything, then takes the results in submission order;     *)
(*   imap  keeps a deque of at most W futures: when it is full it blocks on    *)
(*         the OLDEST future (popleft().result()) before the next submit, and  *)
(*         flushes the deque at the end.                                       *)
(* A failing task delivers its exception when its turn comes (or None under    *)
(* error_to_warning).  TLC checks that every behaviour's event sequence         *)
(* satisfies PoolProps!CallOK, and lists the feasible completion orders.       *)
EXTENDS PoolProps, TLC, Json

CONSTANTS N, W, Lazy        \* Lazy = TRUE: imap, FALSE: map

VARIABLES fail, e2w, sub, run, fin, cons, raised, ev, order
vars == <<fail, e2w, sub, run, fin, cons, raised, ev, order>>

Init == /\ fail \in {{}} \cup {{i} : i \in 1..N}
        /\ e2w \in BOOLEAN
        /\ sub = 0 /\ run = {} /\ fin = {} /\ cons = 0 /\ raised = 0
        /\ ev = <<>> /\ order = <<>>

Started == run \cup fin
Submit == /\ raised = 0 /\ sub < N
          /\ (Lazy => sub - cons < W)                           \* imap: window not full
          /\ sub' = sub + 1 /\ ev' = Append(ev, <<"submit", sub + 1>>)
          /\ UNCHANGED <<fail, e2w, run, fin, cons, raised, order>>
Start(i) == /\ i \in 1..sub /\ i \notin Started /\ \A j \in 1..i-1 : j \in Started     \* FIFO
            /\ Cardinality(run) < W
            /\ run' = run \cup {i} /\ ev' = Append(ev, <<"start", i>>)
            /\ UNCHANGED <<fail, e2w, sub, fin, cons, raised, order>>
Finish(i) == /\ i \in run
             /\ run' = run \ {i} /\ fin' = fin \cup {i}
             /\ ev' = Append(ev, <<"finish", i>>) /\ order' = Append(order, i)
             /\ UNCHANGED <<fail, e2w, sub, cons, raised>>
\* the caller takes the oldest outstanding result: map after submitting everything,
\* imap when the window is full or everything is submitted
Take == /\ raised = 0 /\ cons < sub /\ (cons + 1) \in fin
        /\ IF Lazy THEN (sub - cons >= W \/ sub = N) ELSE sub = N
        /\ IF (cons + 1) \in fail /\ ~e2w
           THEN raised' = cons + 1 /\ cons' = cons /\ ev' = Append(ev, <<"raise", cons + 1>>)
           ELSE raised' = 0 /\ cons' = cons + 1 /\ ev' = Append(ev, <<"consume", cons + 1>>)
        /\ UNCHANGED <<fail, e2w, sub, run, fin, order>>

Next == Submit \/ Take \/ \E i \in 1..N : Start(i) \/ Finish(i)
Spec == Init /\ [][Next]_vars
FairSpec == Spec /\ WF_vars(Submit) /\ WF_vars(Take) /\ \A i \in 1..N : WF_vars(Start(i)) /\ WF_vars(Finish(i))

\* refinement: dropping the event log gives PoolWindowInd, whose inductive invariant (window bound, at most W running,
\* in-order consumption of finished tasks) Apalache discharges for all N, W <= 12 at once
PW == INSTANCE PoolWindowInd
RefinesInd == PW!Spec

Quiet == run = {} /\ (raised # 0 \/ cons = N) /\ (\A i \in 1..sub : i \in fin)
DesignRefinesProps == CallOK(ev, N, W, fail, e2w, Lazy) \/ ~Quiet
\* safety part of CallOK holds in every prefix, too
PrefixSafe == Order(ev) /\ Once(ev, N) /\ (Lazy => Bound(ev, W)) /\ Errors(ev, fail, e2w, Lazy)
Done == <>Quiet
\* replay cases: one per terminal state = one feasible completion order per fault choice
Emit == ~Quiet \/ PrintT(<<"CASE", ToJson([n |-> N, w |-> W, lazy |-> Lazy, fail |-> fail, e2w |-> e2w,
                                            order |-> order, raised |-> raised, cons |-> cons])>>)
=============================================================================
