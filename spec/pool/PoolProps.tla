------------------------------ MODULE PoolProps -----------------------------
(* C10 -- what FileSet.map / imap / collect / icollect promise, phrased over   *)
(* the observable events of one call on files 1..n (in find() order):          *)
(*   <<"submit", i>>   task i handed to the pool                               *)
(*   <<"start", i>>    the per-file function begins on file i                   *)
(*   <<"finish", i>>   ... and ends                                            *)
(*   <<"consume", i>>  the caller receives the result of file i                *)
(*   <<"raise", i>>    the caller receives the exception of task i             *)
(* ev is the sequence of events in the order they happened.                    *)
EXTENDS Integers, Sequences, FiniteSets

Pos(ev, e) == {p \in 1..Len(ev) : ev[p] = e}
Count(ev, kind, upto) == Cardinality({p \in 1..upto : ev[p][1] = kind})
Consumed(ev) == SelectSeq(ev, LAMBDA e : e[1] = "consume")

\* results reach the caller in file order, without gaps or repetition
Order(ev) == \A j \in 1..Len(Consumed(ev)) : Consumed(ev)[j][2] = j
\* every file is processed at most once, and only after it was submitted; consumed only after it finished
Once(ev, n) == \A i \in 1..n :
    /\ Cardinality(Pos(ev, <<"start", i>>)) <= 1
    /\ Cardinality(Pos(ev, <<"consume", i>>)) <= 1
    /\ \A p \in Pos(ev, <<"consume", i>>) : \E q \in Pos(ev, <<"finish", i>>) : q < p
    /\ \A p \in Pos(ev, <<"finish", i>>) : \E q \in Pos(ev, <<"start", i>>) : q < p
\* imap / icollect: never more than W submitted-but-unconsumed tasks
Bound(ev, W) == \A p \in 1..Len(ev) : ev[p][1] = "submit" =>
                    Count(ev, "submit", p) - Count(ev, "consume", p) <= W
\* an exception of task i reaches the caller when i's turn comes, and only a failing task raises
\* (lazy: imap/icollect deliver results one by one, so exactly the files before i were delivered;
\*  map/collect return everything at once or raise, the caller sees no partial result)
Errors(ev, fail, e2w, lazy) ==
    /\ \A p \in 1..Len(ev) : ev[p][1] = "raise" =>
          /\ ev[p][2] \in fail /\ ~e2w
          /\ IF lazy THEN Count(ev, "consume", p) = ev[p][2] - 1
                     ELSE Count(ev, "consume", p) \in {0, ev[p][2] - 1}
          /\ \A q \in p+1..Len(ev) : ev[q][1] \notin {"consume", "raise"}
    /\ (~e2w => \A i \in fail : Pos(ev, <<"consume", i>>) = {})
\* a call that did not raise delivered everything
Complete(ev, n) == (\A p \in 1..Len(ev) : ev[p][1] # "raise") => Len(Consumed(ev)) = n

CallOK(ev, n, W, fail, e2w, lazy) ==
    Order(ev) /\ Once(ev, n) /\ (lazy => Bound(ev, W)) /\ Errors(ev, fail, e2w, lazy) /\ Complete(ev, n)
=============================================================================
