--------------------------- MODULE PoolWindowInd ---------------------------
(* C10 -- the executor / imap window of PoolDesign without its history        *)
(* variables, with an INDUCTIVE invariant that Apalache discharges for every  *)
(* number of files N and every pool size W up to MaxConst at once (symbolic   *)
(* constants), i.e. well beyond the instances TLC enumerates.                 *)
(*   Init => IndInv            (--init=Init  --inv=IndInv --length=0)          *)
(*   IndInv /\ Next => IndInv' (--init=IndInv --inv=IndInv --length=1)         *)
(* IndInv implies the properties PoolProps states about a prefix:             *)
(*   Bound   : at most W submitted-but-unconsumed tasks under imap,           *)
(*   at most W tasks running, results consumed in submission order and only   *)
(*   when finished, nothing started that was not submitted.                   *)
EXTENDS Integers, FiniteSets

CONSTANTS
    \* @type: Int;
    N,
    \* @type: Int;
    W,
    \* @type: Bool;
    Lazy

VARIABLES
    \* @type: Int;
    sub,
    \* @type: Set(Int);
    run,
    \* @type: Set(Int);
    fin,
    \* @type: Int;
    cons,
    \* @type: Int;
    raised,
    \* @type: Set(Int);
    fail,
    \* @type: Bool;
    e2w

MaxConst == 12
ConstInit == N \in 1..MaxConst /\ W \in 1..MaxConst /\ Lazy \in BOOLEAN

Started == run \cup fin
Init == /\ fail \in SUBSET (1..MaxConst) /\ e2w \in BOOLEAN
        /\ sub = 0 /\ run = {} /\ fin = {} /\ cons = 0 /\ raised = 0

Submit == /\ raised = 0 /\ sub < N
          /\ (Lazy => sub - cons < W)
          /\ sub' = sub + 1
          /\ UNCHANGED <<fail, e2w, run, fin, cons, raised>>
Start(i) == /\ i \in 1..sub /\ i \notin Started /\ \A j \in 1..MaxConst : (j < i => j \in Started)
            /\ Cardinality(run) < W
            /\ run' = run \cup {i}
            /\ UNCHANGED <<fail, e2w, sub, fin, cons, raised>>
Finish(i) == /\ i \in run
             /\ run' = run \ {i} /\ fin' = fin \cup {i}
             /\ UNCHANGED <<fail, e2w, sub, cons, raised>>
Take == /\ raised = 0 /\ cons < sub /\ (cons + 1) \in fin
        /\ IF Lazy THEN (sub - cons >= W \/ sub = N) ELSE sub = N
        /\ IF (cons + 1) \in fail /\ ~e2w
           THEN raised' = cons + 1 /\ cons' = cons
           ELSE raised' = 0 /\ cons' = cons + 1
        /\ UNCHANGED <<fail, e2w, sub, run, fin>>

Next == Submit \/ Take \/ \E i \in 1..MaxConst : Start(i) \/ Finish(i)

vars == <<sub, run, fin, cons, raised, fail, e2w>>
Spec == Init /\ [][Next]_vars

IndInv == /\ sub \in 0..N /\ cons \in 0..sub /\ raised \in 0..sub
          /\ run \subseteq 1..sub /\ fin \subseteq 1..sub /\ run \cap fin = {}
          /\ fail \subseteq 1..MaxConst
          /\ Cardinality(run) <= W                                    \* never more than W running tasks
          /\ (Lazy => sub - cons <= W)                                \* Bound: the imap window
          /\ \A i \in 1..MaxConst : (i <= cons => i \in fin)         \* consumed only when finished, in order
          /\ \A i \in 1..MaxConst, j \in 1..MaxConst : (i \in Started /\ j < i) => j \in Started     \* FIFO start
          /\ (raised # 0 => raised = cons + 1 /\ raised \in fin /\ raised \in fail /\ ~e2w)
\* the typed universe from which an arbitrary IndInv-state is picked (assignment form for Apalache)
IndInit == /\ sub \in 0..MaxConst /\ cons \in 0..MaxConst /\ raised \in 0..MaxConst
           /\ run \in SUBSET (1..MaxConst) /\ fin \in SUBSET (1..MaxConst) /\ fail \in SUBSET (1..MaxConst)
           /\ e2w \in BOOLEAN
           /\ IndInv
=============================================================================
