------------------------------ MODULE PoolTrace -----------------------------
(* C10 -- trace validation: event logs of real map/imap/collect/icollect calls *)
(*   {tid, n, W, fail: [..], e2w, lazy, ev: [[kind, i], ..]}                     *)
EXTENDS PoolProps, TLC, Json, IOUtils
Traces == ndJsonDeserialize(IOEnv.TRACE_FILE)
VARIABLE t
Init == t \in 1..Len(Traces)
Next == UNCHANGED t
Ev(tr) == [p \in 1..Len(tr.ev) |-> <<tr.ev[p][1], tr.ev[p][2]>>]
Fail(tr) == {tr.fail[k] : k \in 1..Len(tr.fail)}
Failing(tr) ==
    LET ev == Ev(tr) IN
    IF ~Order(ev) THEN "Order"
    ELSE IF ~Once(ev, tr.n) THEN "Once"
    ELSE IF tr.lazy /\ ~Bound(ev, tr.W) THEN "Bound"
    ELSE IF ~Errors(ev, Fail(tr), tr.e2w, tr.lazy) THEN "Errors"
    ELSE IF ~Complete(ev, tr.n) THEN "Complete"
    ELSE "ok"
Verdict == LET tr == Traces[t] v == Failing(tr)
           IN IF v = "ok" THEN PrintT(<<"ACCEPT", tr.tid>>) ELSE PrintT(<<"REJECT", tr.tid, v>>)
=============================================================================
