------------------------------ MODULE AlignDesign ---------------------------
(* C10 -- FileSet.align as the code performs it: the primaries are read by one *)
(* lazy loader in match order, the UNIQUE secondaries by a second lazy loader   *)
(* in order of first use; a secondary stays in a cache until its usage counter  *)
(* drops to zero.  One action per loop step.  TLC checks for every match        *)
(* relation of the bound (any primary may list any secondaries in any order)    *)
(* that the pairs come out exactly as the match list prescribes, that the       *)
(* loader is never out of step (no AlignError), that every secondary is read     *)
(* once and that the cache only holds secondaries that are still needed.         *)
EXTENDS Integers, Sequences, FiniteSets, TLC

CONSTANTS NP, NS, MaxFail

Secs == 1..NS
SeqsOf(S) == UNION {{s \in [1..n -> S] : \A i, j \in 1..n : i # j => s[i] # s[j]} : n \in 1..Cardinality(S)}
\* failing files: primaries are 1..NP, secondaries 101..(100+NS)
Files == (1..NP) \cup {100 + s : s \in Secs}

VARIABLES match,      \* match[p] = sequence of secondaries of primary p
          fail, skip, \* unreadable files, skip_errors
          pi, si,     \* current primary / position in its secondary list
          cache, usage, loaded,   \* secondary cache, remaining uses, sequence of secondaries read so far
          out, err
vars == <<match, fail, skip, pi, si, cache, usage, loaded, out, err>>

RECURSIVE Flat(_, _)
Flat(m, p) == IF p > NP THEN <<>> ELSE m[p] \o Flat(m, p + 1)
RECURSIVE Uniq(_, _)
Uniq(s, seen) == IF s = <<>> THEN <<>> ELSE IF Head(s) \in seen THEN Uniq(Tail(s), seen) ELSE <<Head(s)>> \o Uniq(Tail(s), seen \cup {Head(s)})
Order(m) == Uniq(Flat(m, 1), {})                       \* order in which the secondary loader delivers
Uses(m, s) == Cardinality({<<p, k>> \in (1..NP) \X (1..NS) : k <= Len(m[p]) /\ m[p][k] = s})

Init == /\ match \in [1..NP -> SeqsOf(Secs)]
        /\ fail \in {F \in SUBSET Files : Cardinality(F) <= MaxFail} /\ skip \in BOOLEAN
        /\ pi = 1 /\ si = 1 /\ cache = {} /\ loaded = <<>> /\ out = <<>> /\ err = "none"
        /\ usage = [s \in Secs |-> Uses(match, s)]

Running == err = "none" /\ pi <= NP
\* a failing read without skip_errors ends the iteration with that exception
ReadFails(f) == f \in fail /\ ~skip

Step == /\ Running
        /\ LET s == match[pi][si]
               needLoad == s \notin cache
               nextS == Order(match)[Len(loaded) + 1]
           IN IF ReadFails(pi) THEN err' = "raised" /\ UNCHANGED <<cache, usage, loaded, out, pi, si>>
              ELSE IF needLoad /\ nextS # s THEN err' = "AlignError" /\ UNCHANGED <<cache, usage, loaded, out, pi, si>>
              ELSE IF needLoad /\ ReadFails(100 + s) THEN err' = "raised" /\ UNCHANGED <<cache, usage, loaded, out, pi, si>>
              ELSE /\ loaded' = IF needLoad THEN Append(loaded, s) ELSE loaded
                   /\ usage' = [usage EXCEPT ![s] = @ - 1]
                   /\ cache' = IF usage[s] - 1 = 0 THEN cache \ {s} ELSE cache \cup {s}
                   /\ out' = IF pi \in fail \/ (100 + s) \in fail THEN out ELSE Append(out, <<pi, s>>)     \* skipped pairs
                   /\ IF si < Len(match[pi]) THEN si' = si + 1 /\ pi' = pi ELSE si' = 1 /\ pi' = pi + 1
                   /\ err' = "none"
        /\ UNCHANGED <<match, fail, skip>>
Next == Step
Spec == Init /\ [][Next]_vars /\ WF_vars(Step)

\* ---- properties -----------------------------------------------------------------
Expected == LET all == [p \in 1..NP |-> [k \in 1..Len(match[p]) |-> <<p, match[p][k]>>]]
                RECURSIVE Cat(_)
                Cat(p) == IF p > NP THEN <<>> ELSE all[p] \o Cat(p + 1)
            IN SelectSeq(Cat(1), LAMBDA pr : pr[1] \notin fail /\ (100 + pr[2]) \notin fail)
NeverOutOfStep == err # "AlignError"
Done == pi > NP
AlignOK == Done => /\ out = Expected                                            \* pairs and order
                   /\ loaded = Order(match)                                     \* every needed secondary read exactly once
                   /\ cache = {}
CacheMinimal == \A s \in cache : usage[s] > 0
ErrorsOnlyFromFailures == err = "raised" => fail # {} /\ ~skip
PrefixRight == \A n \in 1..Len(out) : \E m \in 1..Len(Expected) : out[n] = Expected[m]
Terminates == <>(Done \/ err # "none")
=============================================================================
