---------------------------- MODULE ShuffleDesign ---------------------------
(* C06 -- implementation-shaped model of GeoIndex: the build points are       *)
(* shuffled by a random permutation before they enter the tree, the tree      *)
(* answers in TREE indices, and the answer is translated back.  The random    *)
(* permutation is the "schedule" of this structure: TLC explores all of them. *)
(*   Build      draw perm, tree point t is B[perm[t]]                          *)
(*   RawQuery   tree answers {<<t, j>>} for the radius class                  *)
(*   Translate  tree index t -> perm[t]  (the code: shuffler[pairs[0]])        *)
(* including the branch where the raw answer is the single pair (tree index 1,*)
(* query index 1), which an emptiness test by value would mistake for empty.  *)
EXTENDS GeoIndexProps, TLC, FiniteSetsExt

CONSTANTS MaxB, MaxQ

Perms(n) == {f \in [1..n -> 1..n] : \A a, b \in 1..n : f[a] = f[b] => a = b}

VARIABLES B, Q, k, perm, raw, out, pc
vars == <<B, Q, k, perm, raw, out, pc>>

Init == /\ B \in UNION {[1..n -> 0..N-1] : n \in 1..MaxB}
        /\ Q \in UNION {[1..n -> 0..N-1] : n \in 1..MaxQ}
        /\ k \in 0..(N \div 2)
        /\ perm = <<>> /\ raw = {} /\ out = {} /\ pc = "build"

Build == /\ pc = "build"
         /\ perm' \in Perms(Len(B))
         /\ pc' = "query"
         /\ UNCHANGED <<B, Q, k, raw, out>>

RawQuery == /\ pc = "query"
            /\ raw' = {p \in (1..Len(B)) \X (1..Len(Q)) : RingDist(B[perm[p[1]]], Q[p[2]]) <= k}
            /\ pc' = "translate"
            /\ UNCHANGED <<B, Q, k, perm, out>>

Translate == /\ pc = "translate"
             /\ out' = {<<perm[p[1]], p[2]>> : p \in raw}
             /\ pc' = "done"
             /\ UNCHANGED <<B, Q, k, perm, raw>>

Next == Build \/ RawQuery \/ Translate
Spec == Init /\ [][Next]_vars

DesignRefinesProps == pc = "done" => out = Within(B, Q, k) /\ Cardinality(out) = Cardinality(raw)
\* the scenario class that a value-based emptiness test confuses with "no result" is reachable
OnlyFirstFirst == ~(pc = "translate" /\ raw = {<<1, 1>>} /\ perm[1] # 1)
=============================================================================
