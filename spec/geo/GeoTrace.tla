------------------------------ MODULE GeoTrace ------------------------------
(* C06 -- trace validation: recorded GeoIndex sessions {tid, N, B, calls:[{Q,k,ok,pairs,cls}]} *)
EXTENDS Integers, Sequences, FiniteSets, TLC, Json, IOUtils

Traces == ndJsonDeserialize(IOEnv.TRACE_FILE)
VARIABLE t
Init == t \in 1..Len(Traces)
Next == UNCHANGED t

CallOK(tr, c) == LET G == INSTANCE GeoIndexProps WITH N <- tr.N
                 IN c.ok /\ G!QueryOK(tr.B, c.Q, c.k, [pairs |-> [n \in 1..Len(c.pairs) |-> <<c.pairs[n][1], c.pairs[n][2]>>],
                                                      cls |-> c.cls])
FirstBad(tr) == LET bad == {n \in 1..Len(tr.calls) : ~CallOK(tr, tr.calls[n])}
                IN IF bad = {} THEN 0 ELSE CHOOSE n \in bad : \A m \in bad : n <= m
Verdict == LET tr == Traces[t] b == FirstBad(tr)
           IN IF b = 0 THEN PrintT(<<"ACCEPT", tr.tid>>) ELSE PrintT(<<"REJECT", tr.tid, b>>)
=============================================================================
