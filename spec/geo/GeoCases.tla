------------------------------ MODULE GeoCases ------------------------------
(* C06 -- generator: build / query sequences on the ring with the oracle      *)
(* answer for every radius class.                                             *)
EXTENDS GeoIndexProps, TLC, Json, Randomization

CONSTANTS MaxB, MaxQ, NSample

Bs == UNION {[1..n -> 0..N-1] : n \in 1..MaxB}
Qs == UNION {[1..n -> 0..N-1] : n \in 1..MaxQ}
VARIABLE c
Init == c \in (IF NSample = 0 THEN Bs \X Qs ELSE RandomSubset(NSample, Bs \X Qs))
Next == UNCHANGED c
Emit == PrintT(<<"CASE", ToJson([B |-> c[1], Q |-> c[2],
          byk |-> [k \in 0..(N \div 2) |-> {<<p[1], p[2], RingDist(c[1][p[1]], c[2][p[2]])>> : p \in Within(c[1], c[2], k)}],
          \* the index queried with its own build points
          self |-> [k \in 0..(N \div 2) |-> {<<p[1], p[2], RingDist(c[1][p[1]], c[1][p[2]])>> : p \in Within(c[1], c[1], k)}]])>>)
=============================================================================
