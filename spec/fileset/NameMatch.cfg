INIT Init
NEXT Next
INVARIANT ValidNamesMatch
INVARIANT Emit
