----------------------------- MODULE MatchCases -----------------------------
(* C03 -- test generator for FileSet.match: two populations, a period and a   *)
(* max_interval; the oracle pairing of FindProps!MatchOK is printed.          *)
EXTENDS FindProps, TLC, Json, Randomization

CONSTANTS T, MaxFiles, MaxDur, NSample, Intervals

Shapes == {<<a, b>> \in (0..T-1) \X (0..T-1) : a <= b /\ b - a <= MaxDur}
Pool(k) == {[id |-> 1000 * k + 10 * sh[1] + sh[2], t0 |-> sh[1], t1 |-> sh[2], tag |-> 1] : sh \in Shapes}
Pops(k) == CASE MaxFiles = 1 -> {{a} : a \in Pool(k)}
             [] MaxFiles = 2 -> {{a, b} : a \in Pool(k), b \in Pool(k)}
             [] OTHER -> {{a, b, c} : a \in Pool(k), b \in Pool(k), c \in Pool(k)}
Pairs == Pops(1) \X Pops(2)

VARIABLE FG
\* sampling draws each side separately: the product set is too large to enumerate for three files per side
Root == CHOOSE r \in 1..1000 : r * r >= NSample /\ (r - 1) * (r - 1) < NSample
Init == IF NSample = 0 THEN FG \in Pairs
        ELSE \E F \in RandomSubset(Root, Pops(1)), G \in RandomSubset(Root, Pops(2)) : FG = <<F, G>>
Next == UNCHANGED FG

Periods == {<<s, e>> \in (0..T) \X (0..T) : s < e}
Row(F, G, s, e, I) ==
    LET P == Found(F, s - I, e + I)
        GG == Found(G, s - I, e + I)
    IN <<s, e, I, {<<p.id, {g.id : g \in Partners(p, GG, I)}>> : p \in {x \in P : Partners(x, GG, I) # {}}},
         Cardinality(P), Cardinality(GG)>>

Emit == PrintT(<<"CASE", ToJson([
          F |-> {<<f.id, f.t0, f.t1, f.tag>> : f \in FG[1]},
          G |-> {<<f.id, f.t0, f.t1, f.tag>> : f \in FG[2]},
          rows |-> {Row(FG[1], FG[2], p[1], p[2], I) : p \in Periods, I \in Intervals}])>>)
=============================================================================
