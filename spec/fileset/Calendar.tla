------------------------------ MODULE Calendar ------------------------------
(* Proleptic Gregorian calendar on broken-down times                          *)
(*     t = <<year, month, day, hour, minute, second, millisecond>>            *)
(* transcribed for the file-name property C02 (leap rule, days per month,     *)
(* day-of-year both ways, carries when adding a day / hour / minute / second).*)
EXTENDS Integers, Sequences

Leap(y) == (y % 4 = 0 /\ y % 100 # 0) \/ y % 400 = 0
DaysIn(y, m) == CASE m \in {1, 3, 5, 7, 8, 10, 12} -> 31
                  [] m \in {4, 6, 9, 11} -> 30
                  [] OTHER -> IF Leap(y) THEN 29 ELSE 28
DaysInYear(y) == IF Leap(y) THEN 366 ELSE 365

ValidTime(t) == /\ t[2] \in 1..12 /\ t[3] \in 1..DaysIn(t[1], t[2])
                /\ t[4] \in 0..23 /\ t[5] \in 0..59 /\ t[6] \in 0..59 /\ t[7] \in 0..999

RECURSIVE DaysBefore(_, _)
DaysBefore(y, m) == IF m = 1 THEN 0 ELSE DaysBefore(y, m - 1) + DaysIn(y, m - 1)
Doy(y, m, d) == DaysBefore(y, m) + d                       \* 1..366

RECURSIVE MonthOfDoy(_, _, _)
MonthOfDoy(y, n, m) == IF n <= DaysIn(y, m) THEN <<m, n>> ELSE MonthOfDoy(y, n - DaysIn(y, m), m + 1)
FromDoy(y, n) == MonthOfDoy(y, n, 1)                        \* <<month, day>>

\* lexicographic order on times
RECURSIVE LexLess(_, _, _)
LexLess(a, b, i) == IF i > Len(a) THEN FALSE
                    ELSE IF a[i] < b[i] THEN TRUE
                    ELSE IF a[i] > b[i] THEN FALSE
                    ELSE LexLess(a, b, i + 1)
Before(a, b) == LexLess(a, b, 1)
AtMost(a, b) == ~Before(b, a)

SuccDay(t) == IF t[3] < DaysIn(t[1], t[2]) THEN [t EXCEPT ![3] = @ + 1]
              ELSE IF t[2] < 12 THEN [t EXCEPT ![2] = @ + 1, ![3] = 1]
              ELSE [t EXCEPT ![1] = @ + 1, ![2] = 1, ![3] = 1]
SuccHour(t) == IF t[4] < 23 THEN [t EXCEPT ![4] = @ + 1] ELSE SuccDay([t EXCEPT ![4] = 0])
SuccMinute(t) == IF t[5] < 59 THEN [t EXCEPT ![5] = @ + 1] ELSE SuccHour([t EXCEPT ![5] = 0])
SuccSecond(t) == IF t[6] < 59 THEN [t EXCEPT ![6] = @ + 1] ELSE SuccMinute([t EXCEPT ![6] = 0])

\* days from 0001-01-01 to Jan 1 of year y (closed form of the leap rule); differences of
\* MillisSince are meaningful inside windows of a few weeks (TLC integers are 32 bit)
DaysBeforeYear(y) == 365 * (y - 1) + ((y - 1) \div 4) - ((y - 1) \div 100) + ((y - 1) \div 400)
DaysSince(y, base) == DaysBeforeYear(y) - DaysBeforeYear(base)
SecondsSince(t, base) == (((DaysSince(t[1], base) + Doy(t[1], t[2], t[3]) - 1) * 24 + t[4]) * 60 + t[5]) * 60 + t[6]
=============================================================================
