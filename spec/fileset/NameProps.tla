----------------------------- MODULE NameProps ------------------------------
(* C02 -- what a FileSet path template means.                                 *)
(* A template is  [date, nt, ek, ep]:                                            *)
(*   date  \in {"ymd","y2md","ydoy","y2doy"}   how the start DATE is spelled   *)
(*   nt    \in 0..4     how many of hour, minute, second, millisecond follow   *)
(*   ek    \in {"none","full","partial"}                                       *)
(*         "full": the end is spelled exactly like the start (end_ prefix)     *)
(*         "partial": only the end_ fields in ep (a set of time fields)        *)
(* Fields(tpl, s, e) is the filling of every temporal placeholder as a NUMBER  *)
(* (zero padding to the documented width is presentation); StartOf / EndOf    *)
(* say which times get_info must report for a name carrying those fields.     *)
EXTENDS Calendar, FiniteSets, TLC

TimeFields == <<"hour", "minute", "second", "millisecond">>
FieldIndex(f) == CASE f = "hour" -> 4 [] f = "minute" -> 5 [] f = "second" -> 6 [] OTHER -> 7
StartTimeFields(tpl) == {TimeFields[i] : i \in 1..tpl.nt}

Year2(y) == y % 100
FromYear2(v) == IF v < 65 THEN 2000 + v ELSE 1900 + v          \* the documented threshold

\* a time truncated to the resolution of the template (unspelled finer fields are 0)
TruncTo(t, nt) == [i \in 1..7 |-> IF i <= 3 + nt THEN t[i] ELSE 0]

DateFields(style, t, pre) ==
    CASE style = "ymd"   -> (pre \o "year" :> t[1]) @@ (pre \o "month" :> t[2]) @@ (pre \o "day" :> t[3])
      [] style = "y2md"  -> (pre \o "year2" :> Year2(t[1])) @@ (pre \o "month" :> t[2]) @@ (pre \o "day" :> t[3])
      [] style = "ydoy"  -> (pre \o "year" :> t[1]) @@ (pre \o "doy" :> Doy(t[1], t[2], t[3]))
      [] OTHER           -> (pre \o "year2" :> Year2(t[1])) @@ (pre \o "doy" :> Doy(t[1], t[2], t[3]))

RECURSIVE TimeFieldMap(_, _, _)
TimeFieldMap(fs, t, pre) ==
    IF fs = {} THEN <<>>
    ELSE LET f == CHOOSE x \in fs : TRUE
         IN (pre \o f :> t[FieldIndex(f)]) @@ TimeFieldMap(fs \ {f}, t, pre)

\* the END may spell its date differently from the start (e.g. {year2}{doy} ... {end_year}{end_month}{end_day})
EDate(tpl) == IF "edate" \in DOMAIN tpl THEN tpl.edate ELSE tpl.date
EndFieldSet(tpl) == IF tpl.ek = "none" THEN {} ELSE IF tpl.ek = "full" THEN StartTimeFields(tpl) ELSE tpl.ep

\* every temporal placeholder of the template with the number get_filename must write
Fields(tpl, s, e) ==
    DateFields(tpl.date, s, "") @@ TimeFieldMap(StartTimeFields(tpl), s, "")
    @@ (IF tpl.ek = "full" THEN DateFields(EDate(tpl), e, "end_") ELSE <<>>)
    @@ TimeFieldMap(EndFieldSet(tpl), e, "end_")

\* ---- reading a name back -------------------------------------------------
\* date as parsed from the fields (year2 through the threshold, doy through the calendar)
ParsedDate(style, t) ==
    LET y == IF style \in {"y2md", "y2doy"} THEN FromYear2(Year2(t[1])) ELSE t[1]
        md == IF style \in {"ydoy", "y2doy"} THEN FromDoy(y, Doy(t[1], t[2], t[3])) ELSE <<t[2], t[3]>>
    IN <<y, md[1], md[2]>>

StartOf(tpl, s) == LET d == ParsedDate(tpl.date, s)
                   IN [i \in 1..7 |-> IF i <= 3 THEN d[i] ELSE IF i <= 3 + tpl.nt THEN s[i] ELSE 0]

Coarsest(P) == CHOOSE f \in P : \A g \in P : FieldIndex(f) <= FieldIndex(g)
Superior(t, f) == CASE f = "hour" -> SuccDay(t) [] f = "minute" -> SuccHour(t) [] f = "second" -> SuccMinute(t)
                    [] OTHER -> t      \* not used: the property names hour/minute/second only

\* the end reported for a name: "none" when the template has no end fields
EndOf(tpl, s, e) ==
    IF tpl.ek = "none" THEN <<>>
    ELSE IF tpl.ek = "full"
         THEN LET d == ParsedDate(EDate(tpl), e)
              IN [i \in 1..7 |-> IF i <= 3 THEN d[i] ELSE IF i <= 3 + tpl.nt THEN e[i] ELSE 0]
    ELSE LET st == StartOf(tpl, s)
             comb == [i \in 1..7 |-> IF i >= 4 /\ TimeFields[i - 3] \in tpl.ep THEN e[i] ELSE st[i]]
         IN IF Before(comb, st) THEN Superior(comb, Coarsest(tpl.ep)) ELSE comb

\* ---- the theorems TLC checks on the model (NameCases.tla) ---------------------
\* round trip inside the documented year ranges
RoundTripStart(tpl, s) == StartOf(tpl, s) = TruncTo(s, tpl.nt)
RoundTripEnd(tpl, s, e) == tpl.ek = "full" => EndOf(tpl, s, e) = TruncTo(e, tpl.nt)
\* the partial-end rule yields the least time >= start that carries the written end fields
\* and the start's remaining fields, and never precedes the start
PartialEndSound(tpl, s, e) ==
    (tpl.ek = "partial") =>
        LET st == StartOf(tpl, s)  r == EndOf(tpl, s, e)
        IN /\ AtMost(st, r)
           /\ \A f \in tpl.ep : r[FieldIndex(f)] = e[FieldIndex(f)]
           /\ \A i \in 4..7 : (TimeFields[i-3] \notin tpl.ep /\ i > FieldIndex(Coarsest(tpl.ep))) => r[i] = st[i]
\* ... and it identifies the true end whenever that end lies less than one superior period
\* after the start and agrees with the start on the fields the name does not spell out
PartialEndExact(tpl, s, e) ==
    (tpl.ek = "partial") =>
        LET st == StartOf(tpl, s)
            te == TruncTo(e, tpl.nt)
            agrees == \A i \in 4..7 : (TimeFields[i-3] \notin tpl.ep /\ i > FieldIndex(Coarsest(tpl.ep))) => te[i] = st[i]
            within == AtMost(st, te) /\ Before(te, Superior(st, Coarsest(tpl.ep)))
        IN (agrees /\ within) => EndOf(tpl, s, e) = te
=============================================================================
