----------------------------- MODULE CacheDesign ----------------------------
(* C15 -- the FileSet info cache across saves, crashes and restarts.          *)
(* State: mem (entries cached by the live FileSet object), the cache file      *)
(* `main` and its `.backup` sibling.  A file on disk is                        *)
(*     [k |-> "absent"] | [k |-> "doc", e |-> entries] | [k |-> "partial", e |-> entries]  *)
(*   | [k |-> "garbage", e |-> {}]                                             *)
(* "doc" is a complete JSON document holding exactly the entries e; "partial"  *)
(* is a strict prefix of the document of e.                                    *)
(* save_cache is FOUR steps (open/truncate the backup, write, close, rename);  *)
(* a Crash may strike between any two of them.                                 *)
EXTENDS Integers, Sequences, FiniteSets, TLC, Json

CONSTANTS Entries, MaxSaves, MaxLen

Absent == [k |-> "absent", e |-> {}]
Doc(E) == [k |-> "doc", e |-> E]
Partial(E) == [k |-> "partial", e |-> E]
Garbage == [k |-> "garbage", e |-> {}]

VARIABLES mem, main, backup, pc, alive, saves, hist, loaded, warned, corrupted
vars == <<mem, main, backup, pc, alive, saves, hist, loaded, warned, corrupted>>

Init == /\ mem = {} /\ main = Absent /\ backup = Absent /\ pc = "idle" /\ alive = TRUE
        /\ saves = 0 /\ hist = <<>> /\ loaded = {} /\ warned = FALSE /\ corrupted = FALSE

Log(a) == hist' = Append(hist, a)
Room == Len(hist) < MaxLen

Touch(f) == /\ alive /\ pc = "idle" /\ f \notin mem /\ Room
            /\ mem' = mem \cup {f} /\ Log(<<"touch", f>>)
            /\ UNCHANGED <<main, backup, pc, alive, saves, loaded, warned, corrupted>>

\* reset_cache() / assigning time_coverage: the live object forgets everything it has cached; a later save must
\* write that (possibly empty) state, not keep the older document
Reset == /\ alive /\ pc = "idle" /\ mem # {} /\ Room
         /\ mem' = {} /\ Log(<<"reset", 0>>)
         /\ UNCHANGED <<main, backup, pc, alive, saves, loaded, warned, corrupted>>

SaveOpen == /\ alive /\ pc = "idle" /\ saves < MaxSaves /\ Room
            /\ backup' = Partial(mem)                         \* opened with 'w': truncated, nothing written yet
            /\ pc' = "opened" /\ saves' = saves + 1 /\ Log(<<"save_open", 0>>)
            /\ UNCHANGED <<mem, main, alive, loaded, warned, corrupted>>
SaveWrite == /\ alive /\ pc = "opened"
             /\ pc' = "written" /\ Log(<<"save_write", 0>>)    \* still unflushed / unclosed: a crash here leaves a prefix
             /\ UNCHANGED <<mem, main, backup, alive, saves, loaded, warned, corrupted>>
SaveClose == /\ alive /\ pc = "written"
             /\ backup' = Doc(mem) /\ pc' = "closed" /\ Log(<<"save_close", 0>>)
             /\ UNCHANGED <<mem, main, alive, saves, loaded, warned, corrupted>>
SaveRename == /\ alive /\ pc = "closed"
              /\ main' = backup /\ backup' = Absent /\ pc' = "idle" /\ Log(<<"save_rename", 0>>)
              /\ UNCHANGED <<mem, alive, saves, loaded, warned, corrupted>>

Crash == /\ alive /\ Room
         /\ alive' = FALSE /\ mem' = {} /\ pc' = "idle" /\ Log(<<"crash", 0>>)
         /\ UNCHANGED <<main, backup, saves, loaded, warned, corrupted>>

\* normal interpreter exit: the save registered with atexit at construction runs to completion, then the process is gone
ExitSave == /\ alive /\ pc = "idle" /\ saves < MaxSaves /\ Room
            /\ main' = Doc(mem) /\ backup' = Absent /\ saves' = saves + 1
            /\ alive' = FALSE /\ mem' = {} /\ Log(<<"exit", 0>>)
            /\ UNCHANGED <<pc, loaded, warned, corrupted>>

\* a new FileSet object with the same cache file: load_cache
Restart == /\ ~alive /\ Room
           /\ alive' = TRUE
           /\ mem' = IF main.k = "doc" THEN main.e ELSE {}
           /\ loaded' = mem'
           /\ warned' = (main.k \in {"partial", "garbage"})
           /\ Log(<<"restart", 0>>)
           /\ UNCHANGED <<main, backup, pc, saves, corrupted>>

\* adversary: the cache file is damaged while no process is alive
Corrupt == /\ ~alive /\ ~corrupted /\ main.k = "doc" /\ Room
           /\ main' = Garbage /\ corrupted' = TRUE /\ Log(<<"corrupt", 0>>)
           /\ UNCHANGED <<mem, backup, pc, alive, saves, loaded, warned>>

Next == (\E f \in Entries : Touch(f)) \/ Reset \/ SaveOpen \/ SaveWrite \/ SaveClose \/ SaveRename \/ Crash \/ ExitSave \/ Restart \/ Corrupt
Spec == Init /\ [][Next]_vars

\* ---- properties --------------------------------------------------------------
\* the previously saved cache file is never a truncated or mixed document
MainComplete == corrupted \/ main.k \in {"absent", "doc"}
\* what a restart restores
LoadOK == (alive /\ hist # <<>> /\ hist[Len(hist)][1] = "restart") =>
             /\ loaded = (IF main.k = "doc" THEN main.e ELSE {})
             /\ (warned <=> main.k \in {"partial", "garbage"})
\* a completed save followed by a restart restores everything that was cached
RoundTrip == (Len(hist) >= 2 /\ hist[Len(hist)][1] = "restart" /\ hist[Len(hist)-1][1] = "crash"
              /\ Len(hist) >= 3 /\ hist[Len(hist)-2][1] = "save_rename") => loaded = main.e /\ main.k = "doc"

\* a save completed after a reset has replaced the older, fuller document
ResetIsSaved == (Len(hist) >= 5 /\ hist[Len(hist)][1] = "save_rename" /\ hist[Len(hist)-4][1] = "reset") => main = Doc({})

\* ---- refinement ----------------------------------------------------------------
\* every behaviour of this design is a behaviour of the history-free CacheInd, whose inductive invariant Apalache
\* discharges for ANY number of saves, resets, crashes and restarts (TLC checks the step correspondence here)
CI == INSTANCE CacheInd WITH justLoaded <- (alive /\ hist # <<>> /\ hist[Len(hist)][1] = "restart")
RefinesInd == CI!Spec

Emit == (hist = <<>> \/ hist[Len(hist)][1] # "restart") \/
        PrintT(<<"CASE", ToJson([hist |-> hist, main |-> main, backup |-> backup, loaded |-> loaded, warned |-> warned])>>)
=============================================================================
