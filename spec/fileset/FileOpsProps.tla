---------------------------- MODULE FileOpsProps ----------------------------
(* C11 -- files written, moved, copied or deleted through FileSets are         *)
(* conserved.  Two filesets X and Y live in different directory trees; the     *)
(* abstract disk of each is a set of <<key, content>> with unique keys, where  *)
(* a key is the file's identity <<t0, dur, tag>> AS FAR AS THE FILESET'S       *)
(* LAYOUT SPELLS IT OUT:                                                       *)
(*     "full"   start, end and tag are in the name                             *)
(*     "noend"  no end fields (discrete files): dur is 0                       *)
(*     "notag"  no user placeholder: tag is 0                                  *)
(* Actions: Write, Move / Copy (with a selection), Delete (dry or not).        *)
(* A history is any sequence of them; the harness replays histories on real    *)
(* filesets and compares the projected directory contents after every step.    *)
EXTENDS Integers, Sequences, FiniteSets, TLC, Json

CONSTANTS LX, LY,            \* layouts of the two filesets
          T, Tags, Contents, MaxLen

Proj(L, k) == CASE L = "full" -> k
                [] L = "noend" -> <<k[1], 0, k[3]>>
                [] OTHER -> <<k[1], k[2], 0>>
Lay(F) == IF F = "X" THEN LX ELSE LY
Ids == (0..T-1) \X {0, 1} \X Tags

VARIABLES dx, dy, hist
vars == <<dx, dy, hist>>
Disk(F) == IF F = "X" THEN dx ELSE dy
Keys(d) == {e[1] : e \in d}
Content(d, k) == (CHOOSE e \in d : e[1] = k)[2]

\* selections are evaluated on the files present, with find()'s semi-open overlap semantics
Sels == {<<"all", 0, 0>>, <<"period", 0, 1>>, <<"period", 1, T>>, <<"period", 1, 2>>} \cup {<<"tag", g, 0>> : g \in Tags}
        \cup {<<"first", 0, 0>>, <<"emptylist", 0, 0>>}
Less(a, b) == a[1] < b[1] \/ (a[1] = b[1] /\ (a[2] < b[2] \/ (a[2] = b[2] /\ a[3] < b[3])))
Sel(d, s) == CASE s[1] = "all" -> Keys(d)
               [] s[1] = "period" -> {k \in Keys(d) : k[1] < s[3] /\ k[1] + k[2] >= s[2]}
               [] s[1] = "tag" -> {k \in Keys(d) : k[3] = s[2]}
               [] s[1] = "emptylist" -> {}                       \* an explicit but EMPTY file list selects nothing
               [] OTHER -> {k \in Keys(d) : \A j \in Keys(d) : k = j \/ Less(k, j)}       \* explicit list: the first file

Init == dx = {} /\ dy = {} /\ hist = <<>>
Room == Len(hist) < MaxLen
SetDisk(F, d) == IF F = "X" THEN dx' = d /\ dy' = dy ELSE dy' = d /\ dx' = dx

Write(F, id, c) ==
    /\ Room
    /\ LET k == Proj(Lay(F), id) IN SetDisk(F, {e \in Disk(F) : e[1] # k} \cup {<<k, c>>})
    /\ hist' = Append(hist, [op |-> "write", f |-> F, id |-> id, c |-> c, sel |-> <<"none", 0, 0>>, flag |-> FALSE,
                              dx |-> dx', dy |-> dy', collide |-> FALSE])

\* every selected file gets the name the target layout generates from ITS times and tag; its content is kept;
\* colliding targets end up with the content of one of the colliding sources
Move(S, s, copy) ==
    /\ Room
    /\ LET D == IF S = "X" THEN "Y" ELSE "X"
           src == Disk(S)  dst == Disk(D)
           chosen == Sel(src, s)
           tgt(k) == Proj(Lay(D), k)
           targets == {tgt(k) : k \in chosen}
       IN /\ (chosen # {} \/ s[1] = "emptylist")              \* (a period / filter that finds nothing raises NoFilesError)
          /\ \E pick \in [targets -> Contents] :
                /\ \A t \in targets : pick[t] \in {Content(src, k) : k \in {j \in chosen : tgt(j) = t}}
                /\ LET newdst == {e \in dst : e[1] \notin targets} \cup {<<t, pick[t]>> : t \in targets}
                       newsrc == IF copy THEN src ELSE {e \in src : e[1] \notin chosen}
                   IN IF S = "X" THEN dx' = newsrc /\ dy' = newdst ELSE dy' = newsrc /\ dx' = newdst
    /\ LET D == IF S = "X" THEN "Y" ELSE "X" IN
       hist' = Append(hist, [op |-> "move", f |-> S, id |-> <<0, 0, 0>>, c |-> 0, sel |-> s, flag |-> copy,
                              dx |-> dx', dy |-> dy',
                              \* two selected files with different contents map to one target name: either content may win
                              collide |-> \E a, b \in Sel(Disk(S), s) : a # b /\ Proj(Lay(D), a) = Proj(Lay(D), b)
                                                                      /\ Content(Disk(S), a) # Content(Disk(S), b)])

Delete(F, s, dry) ==
    /\ Room /\ (Sel(Disk(F), s) # {} \/ (s[1] = "emptylist" /\ Disk(F) # {}))
    /\ SetDisk(F, IF dry THEN Disk(F) ELSE {e \in Disk(F) : e[1] \notin Sel(Disk(F), s)})
    /\ hist' = Append(hist, [op |-> "delete", f |-> F, id |-> <<0, 0, 0>>, c |-> 0, sel |-> s, flag |-> dry,
                              dx |-> dx', dy |-> dy', collide |-> FALSE])

\* moving is offered from X to Y only when Y's layout needs no field that X's lacks (and vice versa)
CanMove(S, D) == ~(Lay(S) = "notag" /\ Lay(D) # "notag")
Next == \/ \E F \in {"X", "Y"}, id \in Ids, c \in Contents : Write(F, id, c)
        \/ \E S \in {"X", "Y"}, s \in Sels, cp \in BOOLEAN : CanMove(S, IF S = "X" THEN "Y" ELSE "X") /\ Move(S, s, cp)
        \/ \E F \in {"X", "Y"}, s \in Sels, dry \in BOOLEAN : Delete(F, s, dry)
Spec == Init /\ [][Next]_vars

\* ---- invariants ------------------------------------------------------------
UniqueKeys == \A d \in {dx, dy} : \A a, b \in d : a[1] = b[1] => a = b
WellProjected == (\A e \in dx : Proj(LX, e[1]) = e[1]) /\ (\A e \in dy : Proj(LY, e[1]) = e[1])
\* conservation as an action property: contents never appear from nowhere
NoInvention == [][\A e \in dx' \cup dy' : e[2] \in {f[2] : f \in dx \cup dy} \/ hist'[Len(hist')].op = "write"]_vars

Emit == Len(hist) < MaxLen \/ PrintT(<<"CASE", ToJson([hist |-> hist])>>)
=============================================================================
