----------------------------- MODULE FindProps ------------------------------
(* C01 / C16 / C03(match) -- property layer of FileSet.find and friends.     *)
(* Time is an integer tick line.  A file is a record [id, t0, t1, tag] with   *)
(* t0 <= t1 (closed coverage); a population is a finite set of files.         *)
(* A query is [s, e, xnames, xperiods, white, black]:                        *)
(*   s, e      semi-open period [s, e)   (open ends are modelled by MinT/MaxT) *)
(*   xnames    set of file ids excluded by name                               *)
(*   xperiods  set of closed periods <<a, b>> excluded                        *)
(*   white     set of allowed tags ({} = no white list), black = forbidden    *)
(* Nothing here mentions directories: that IS the layout-independence clause. *)
EXTENDS Integers, Sequences, FiniteSets

Overlap(f, s, e) == f.t0 < e /\ f.t1 >= s
ExcludedByPeriod(f, P) == \E p \in P : f.t0 <= p[2] /\ f.t1 >= p[1]
Passes(f, white, black) == (white = {} \/ f.tag \in white) /\ f.tag \notin black
Admitted(f, q) == /\ f.id \notin q.xnames
                  /\ ~ExcludedByPeriod(f, q.xperiods)
                  /\ Passes(f, q.white, q.black)

FindSpec(F, q) == {f \in F : Overlap(f, q.s, q.e) /\ Admitted(f, q)}

LeqKey(a, b) == a.t0 < b.t0 \/ (a.t0 = b.t0 /\ a.t1 <= b.t1)
Ordered(out) == \A i \in 1..Len(out)-1 : LeqKey(out[i], out[i+1])
SeqRange(s) == {s[k] : k \in 1..Len(s)}

\* out: the sequence of yielded files
FindOK(F, q, sorted, out) ==
    /\ SeqRange(out) = FindSpec(F, q)
    /\ Len(out) = Cardinality(FindSpec(F, q))           \* each exactly once
    /\ sorted => Ordered(out)

\* `t in fileset`  and  len(fileset)
ContainsSpec(F, q, t) == \E f \in F : f.t0 <= t /\ t <= f.t1 /\ Admitted(f, q)
LenSpec(F, q) == Cardinality({f \in F : Admitted(f, q)})

\* bundles: a sequence of non-empty sequences whose concatenation is the ordered result
RECURSIVE Flatten(_)
Flatten(bs) == IF bs = <<>> THEN <<>> ELSE Head(bs) \o Flatten(Tail(bs))
BundleCountOK(F, q, n, bs) ==
    /\ FindOK(F, q, TRUE, Flatten(bs))
    /\ \A k \in 1..Len(bs) : Len(bs[k]) >= 1 /\ Len(bs[k]) <= n
    /\ \A k \in 1..Len(bs)-1 : Len(bs[k]) = n
BundleFreqOK(F, q, w, bs) ==
    /\ FindOK(F, q, TRUE, Flatten(bs))
    /\ \A k \in 1..Len(bs) : /\ Len(bs[k]) >= 1
                            /\ bs[k][Len(bs[k])].t0 - bs[k][1].t0 < w

(* ---- C16: find_closest ------------------------------------------------- *)
Abs(x) == IF x < 0 THEN -x ELSE x
Min2(a, b) == IF a <= b THEN a ELSE b
Dist(f, t) == Min2(Abs(f.t0 - t), Abs(f.t1 - t))
\* R = one sub-directory period (in ticks), or -1 for "no temporal sub-directory" (whole line)
Hood(F, q, t, R) == IF R < 0 THEN {f \in F : Admitted(f, q)}
                    ELSE FindSpec(F, [q EXCEPT !.s = t - R, !.e = t + R])
Covering(F, q, t, R) == {f \in Hood(F, q, t, R) : f.t0 <= t /\ t <= f.t1}
Nearest(F, q, t, R) == {f \in Hood(F, q, t, R) : \A g \in Hood(F, q, t, R) : Dist(f, t) <= Dist(g, t)}
\* r is a file id, or 0 for None / NoFilesError
ClosestOK(F, q, t, R, r) ==
    IF Hood(F, q, t, R) = {} THEN r = 0
    ELSE IF Covering(F, q, t, R) # {} THEN r \in {f.id : f \in Covering(F, q, t, R)}
    ELSE r \in {f.id : f \in Nearest(F, q, t, R)}

(* ---- C03: FileSet.match -------------------------------------------------- *)
\* both filesets are searched in [s - I, e + I); a secondary g is paired with primary p iff
\* their coverages, g widened by I on both sides, intersect (closed intervals).
Found(F, s, e) == FindSpec(F, [s |-> s, e |-> e, xnames |-> {}, xperiods |-> {}, white |-> {}, black |-> {}])
Partners(p, G, I) == {g \in G : g.t0 - I <= p.t1 /\ g.t1 + I >= p.t0}
\* m: sequence of <<primary, sequence of secondaries>>
MatchOK(F1, F2, s, e, I, m) ==
    LET P == Found(F1, s - I, e + I)
        G == Found(F2, s - I, e + I)
        WithPartner == {p \in P : Partners(p, G, I) # {}}
    IN /\ Len(m) = Cardinality(WithPartner)
       /\ {m[k][1] : k \in 1..Len(m)} = WithPartner
       /\ Ordered([k \in 1..Len(m) |-> m[k][1]])
       /\ \A k \in 1..Len(m) : /\ SeqRange(m[k][2]) = Partners(m[k][1], G, I)
                              /\ Len(m[k][2]) = Cardinality(Partners(m[k][1], G, I))
                              /\ Ordered(m[k][2])
=============================================================================
