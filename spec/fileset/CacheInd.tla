------------------------------ MODULE CacheInd ------------------------------
(* C15 -- CacheDesign without its history / counters (so: ANY number of saves, *)
(* resets, crashes and restarts) over entries 1..MaxE, with an INDUCTIVE       *)
(* invariant for Apalache.  A file is a record [k, e]: k in "absent" | "doc" |  *)
(* "partial" | "garbage", e the entries of the document it is (a prefix of).   *)
EXTENDS Integers, FiniteSets

MaxE == 6
Entries == 1..MaxE

VARIABLES
    \* @type: Set(Int);
    mem,
    \* @type: { k: Str, e: Set(Int) };
    main,
    \* @type: { k: Str, e: Set(Int) };
    backup,
    \* @type: Str;
    pc,
    \* @type: Bool;
    alive,
    \* @type: Set(Int);
    loaded,
    \* @type: Bool;
    warned,
    \* @type: Bool;
    corrupted,
    \* @type: Bool;
    justLoaded

Absent == [k |-> "absent", e |-> {}]
Init == /\ mem = {} /\ main = Absent /\ backup = Absent /\ pc = "idle" /\ alive = TRUE
        /\ loaded = {} /\ warned = FALSE /\ corrupted = FALSE /\ justLoaded = FALSE

Touch(f) == /\ alive /\ pc = "idle" /\ f \notin mem
            /\ mem' = mem \cup {f} /\ justLoaded' = FALSE
            /\ UNCHANGED <<main, backup, pc, alive, loaded, warned, corrupted>>
Reset == /\ alive /\ pc = "idle" /\ mem # {}
         /\ mem' = {} /\ justLoaded' = FALSE
         /\ UNCHANGED <<main, backup, pc, alive, loaded, warned, corrupted>>
SaveOpen == /\ alive /\ pc = "idle"
            /\ backup' = [k |-> "partial", e |-> mem] /\ pc' = "opened" /\ justLoaded' = FALSE
            /\ UNCHANGED <<mem, main, alive, loaded, warned, corrupted>>
SaveWrite == /\ alive /\ pc = "opened"
             /\ pc' = "written"
             /\ UNCHANGED <<mem, main, backup, alive, loaded, warned, corrupted, justLoaded>>
SaveClose == /\ alive /\ pc = "written"
             /\ backup' = [k |-> "doc", e |-> mem] /\ pc' = "closed"
             /\ UNCHANGED <<mem, main, alive, loaded, warned, corrupted, justLoaded>>
SaveRename == /\ alive /\ pc = "closed"
              /\ main' = backup /\ backup' = Absent /\ pc' = "idle"
              /\ UNCHANGED <<mem, alive, loaded, warned, corrupted, justLoaded>>
Crash == /\ alive
         /\ alive' = FALSE /\ mem' = {} /\ pc' = "idle" /\ justLoaded' = FALSE
         /\ UNCHANGED <<main, backup, loaded, warned, corrupted>>
ExitSave == /\ alive /\ pc = "idle"
            /\ main' = [k |-> "doc", e |-> mem] /\ backup' = Absent
            /\ alive' = FALSE /\ mem' = {} /\ justLoaded' = FALSE
            /\ UNCHANGED <<pc, loaded, warned, corrupted>>
Restart == /\ ~alive
           /\ alive' = TRUE
           /\ mem' = IF main.k = "doc" THEN main.e ELSE {}
           /\ loaded' = mem'
           /\ warned' = (main.k \in {"partial", "garbage"})
           /\ justLoaded' = TRUE
           /\ UNCHANGED <<main, backup, pc, corrupted>>
Corrupt == /\ ~alive /\ ~corrupted /\ main.k = "doc"
           /\ main' = [k |-> "garbage", e |-> {}] /\ corrupted' = TRUE
           /\ UNCHANGED <<mem, backup, pc, alive, loaded, warned, justLoaded>>

Next == (\E f \in Entries : Touch(f)) \/ Reset \/ SaveOpen \/ SaveWrite \/ SaveClose \/ SaveRename \/ Crash \/ ExitSave
        \/ Restart \/ Corrupt

vars == <<mem, main, backup, pc, alive, loaded, warned, corrupted, justLoaded>>
Spec == Init /\ [][Next]_vars

\* the properties of the design
MainComplete == corrupted \/ main.k \in {"absent", "doc"}
LoadOK == justLoaded => /\ loaded = (IF main.k = "doc" THEN main.e ELSE {})
                        /\ (warned <=> main.k \in {"partial", "garbage"})
                        /\ mem = loaded

IndInv == /\ mem \subseteq Entries /\ loaded \subseteq Entries /\ main.e \subseteq Entries /\ backup.e \subseteq Entries
          /\ main.k \in {"absent", "doc", "garbage"} /\ backup.k \in {"absent", "doc", "partial"}
          /\ pc \in {"idle", "opened", "written", "closed"}
          /\ (main.k = "garbage" => corrupted) /\ (main.k # "doc" => main.e = {})
          /\ (pc \in {"opened", "written"} => backup.k = "partial")
          /\ (pc = "closed" => backup.k = "doc" /\ backup.e = mem)         \* what gets renamed is a complete document of mem
          /\ (~alive => pc = "idle" /\ mem = {} /\ ~justLoaded) /\ (pc # "idle" => ~justLoaded)
          /\ MainComplete /\ LoadOK

IndInit == /\ mem \in SUBSET Entries /\ loaded \in SUBSET Entries
           /\ main \in [k : {"absent", "doc", "partial", "garbage"}, e : SUBSET Entries]
           /\ backup \in [k : {"absent", "doc", "partial", "garbage"}, e : SUBSET Entries]
           /\ pc \in {"idle", "opened", "written", "closed"}
           /\ alive \in BOOLEAN /\ warned \in BOOLEAN /\ corrupted \in BOOLEAN /\ justLoaded \in BOOLEAN
           /\ IndInv
=============================================================================
