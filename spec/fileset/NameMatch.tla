----------------------------- MODULE NameMatch ------------------------------
(* C02 -- "a name that does not match the template is rejected".             *)
(* A template is a sequence of tokens; a candidate name is a sequence of      *)
(* pieces [text, cls, len], one per token (templates are chosen so that the   *)
(* segmentation is unambiguous: user placeholders and wildcards are fenced by *)
(* literal delimiters that no piece contains).  Matches says whether the name *)
(* must parse; Parsed gives the placeholder strings it must yield (first      *)
(* occurrence of a repeated placeholder).  TLC enumerates, per template, the   *)
(* valid name and every single-piece corruption from the table below.         *)
EXTENDS Integers, Sequences, FiniteSets, TLC, Json

Lit(t) == [k |-> "lit", text |-> t, name |-> "", w |-> 0, vals |-> {}]
Num(n, w) == [k |-> "num", text |-> "", name |-> n, w |-> w, vals |-> {}]
User(n, kind, vals) == [k |-> kind, text |-> "", name |-> n, w |-> 0, vals |-> vals]   \* any | upper | list
Wild == [k |-> "wild", text |-> "", name |-> "", w |-> 0, vals |-> {}]
P(text, cls, len) == [text |-> text, cls |-> cls, len |-> len]

PieceOK(tok, pc) ==
    CASE tok.k = "lit"   -> pc.text = tok.text
      [] tok.k = "num"   -> pc.cls = "digit" /\ pc.len = tok.w
      [] tok.k = "any"   -> pc.len >= 1
      [] tok.k = "upper" -> pc.cls = "upper" /\ pc.len >= 1
      [] tok.k = "list"  -> pc.text \in tok.vals
      [] OTHER           -> TRUE                       \* wildcard '*': anything, also nothing

Matches(tokens, pieces) == Len(pieces) = Len(tokens) /\ \A i \in 1..Len(tokens) : PieceOK(tokens[i], pieces[i])

Names(tokens) == {tokens[i].name : i \in 1..Len(tokens)} \ {""}
First(tokens, n) == CHOOSE i \in 1..Len(tokens) : tokens[i].name = n /\ \A j \in 1..i-1 : tokens[j].name # n
Parsed(tokens, pieces) == [n \in Names(tokens) |-> pieces[First(tokens, n)].text]

\* ---- catalogue ----------------------------------------------------------------
T1 == <<Lit("d_"), User("sat", "any", {}), Lit("_"), Num("year", 4), Num("month", 2), Num("day", 2), Lit("."), Lit("nc")>>
V1 == <<P("d_", "o", 2), P("NOAA-18", "o", 7), P("_", "o", 1), P("2020", "digit", 4), P("02", "digit", 2), P("29", "digit", 2), P(".", "o", 1), P("nc", "o", 2)>>
T2 == <<Num("year", 4), Lit("/"), User("sat", "upper", {}), Lit("/"), Num("year", 4), Num("doy", 3), Lit("T"), Num("hour", 2), Lit("_"), Wild, Lit("_v1.h5")>>
V2 == <<P("2019", "digit", 4), P("/", "o", 1), P("METOPA", "upper", 6), P("/", "o", 1), P("2019", "digit", 4), P("365", "digit", 3), P("T", "o", 1), P("23", "digit", 2), P("_", "o", 1), P("x9", "o", 2), P("_v1.h5", "o", 6)>>
T3 == <<User("mode", "list", {"GAC", "LAC"}), Lit("-"), Num("year2", 2), Num("month", 2), Num("day", 2), Num("hour", 2), Num("minute", 2), Lit("-"), Num("end_hour", 2), Num("end_minute", 2), Lit(".b.z")>>
V3 == <<P("GAC", "upper", 3), P("-", "o", 1), P("64", "digit", 2), P("12", "digit", 2), P("31", "digit", 2), P("23", "digit", 2), P("50", "digit", 2), P("-", "o", 1), P("00", "digit", 2), P("10", "digit", 2), P(".b.z", "o", 4)>>
Catalogue == <<[t |-> T1, v |-> V1], [t |-> T2, v |-> V2], [t |-> T3, v |-> V3]>>

tok2P(tok) == P(tok.text, "o", 0)        \* the literal itself (a valid alternative)
\* alternatives tried in place of one piece (valid and invalid ones alike; Matches decides).
\* Literal corruptions are token specific so that a neighbouring wildcard cannot absorb them.
Alternatives(tok, pc) ==
    CASE tok.k = "num" ->
            {P("7", "digit", 1), P("123", "digit", 3), P("12", "digit", 2), P("1234", "digit", 4), P("12345", "digit", 5),
             P("2o", "o", 2), P("20x0", "o", 4), P("3b5", "o", 3), P("", "o", 0)}
      [] tok.k = "lit" ->
            {P("", "o", 0), P("#", "o", 1), tok2P(tok)} \cup
            (CASE tok.text = "_v1.h5" -> {P("_v1xh5", "o", 6), P("_v1.h5x", "o", 7), P("_v1.h", "o", 5)}
               [] tok.text = "."      -> {P("x", "o", 1), P("..", "o", 2)}
               [] tok.text = ".b.z"   -> {P(".bxz", "o", 4), P("xb.z", "o", 4), P(".b.zz", "o", 5)}
               [] tok.text = "d_"     -> {P("d-", "o", 2), P("xd_", "o", 3)}
               [] tok.text = "nc"     -> {P("nc4", "o", 3), P("n", "o", 1)}
               [] OTHER               -> {P("x", "o", 1)})
      [] tok.k = "any"   -> {P("", "o", 0), P("A", "upper", 1), P("a.b-c", "o", 5)}
      [] tok.k = "upper" -> {P("", "o", 0), P("metopa", "o", 6), P("METOP1", "o", 6), P("Z", "upper", 1)}
      [] tok.k = "list"  -> {P("LAC", "upper", 3), P("HRPT", "upper", 4), P("GA", "upper", 2), P("", "o", 0), P("GACX", "upper", 4)}
      [] OTHER           -> {P("", "o", 0), P("anything.at.all", "o", 15)}

VARIABLES c, i, alt
Init == /\ c \in 1..Len(Catalogue)
        /\ i \in 0..Len(Catalogue[c].t)                      \* 0: the valid name itself
        /\ alt \in (IF i = 0 THEN {P("", "o", 0)} ELSE Alternatives(Catalogue[c].t[i], Catalogue[c].v[i]))
Next == UNCHANGED <<c, i, alt>>

Pieces == IF i = 0 THEN Catalogue[c].v ELSE [Catalogue[c].v EXCEPT ![i] = alt]
ValidNamesMatch == i = 0 => Matches(Catalogue[c].t, Pieces)
Emit == PrintT(<<"CASE", ToJson([
            tokens |-> Catalogue[c].t, pieces |-> Pieces, i |-> i,
            matches |-> Matches(Catalogue[c].t, Pieces),
            parsed |-> IF Matches(Catalogue[c].t, Pieces) THEN Parsed(Catalogue[c].t, Pieces) ELSE <<>>])>>)
=============================================================================
