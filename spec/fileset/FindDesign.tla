----------------------------- MODULE FindDesign -----------------------------
(* C01 -- implementation-shaped model of FileSet.find's directory walk.       *)
(* The path template has a sequence of sub-directory levels                   *)
(*     Layout \in Seq({"year","month","day","hour","tag"})                     *)
(* Each file lives in the directory named after the calendar blocks of its    *)
(* start time.  find() walks the levels top-down, keeping a directory only if *)
(* it passes the per-level check (one action per level), then scans the files *)
(* of the surviving directories (one action).  The model transcribes what the *)
(* code does, including its two idiosyncrasies:                               *)
(*   * the per-level check compares full dates only when year, month and day  *)
(*     are all known at that level; otherwise it falls back to comparing the  *)
(*     YEAR only (the bare except in _check_placeholders);                    *)
(*   * the look-back is a FIXED span per level (366 d / 31 d / 1 d / 1 h),    *)
(*     given here as Span[level] in ticks, not the calendar period.           *)
(* TLC checks  pc = "done" => out = FindSpec(F, q)  for every population and   *)
(* query of the bound that satisfies the property's precondition Pre.         *)
EXTENDS FindProps, TLC, FiniteSetsExt

CONSTANTS T,          \* ticks 0..T-1 carry file starts; coverage may reach T-1
          Tags,       \* user-placeholder values
          MaxFiles, MaxDur,
          Layout,     \* sequence of directory levels
          B,          \* level -> set of block-start ticks (with sentinels below 0)
          Span,       \* level -> fixed look-back span in ticks
          UsePre,     \* TRUE: populations restricted to the property's precondition
          MinT, MaxT  \* stand-ins for datetime.min / datetime.max

Temporal == {"year", "month", "day", "hour"}
Rank(l) == CASE l = "year" -> 1 [] l = "month" -> 2 [] l = "day" -> 3 [] l = "hour" -> 4 [] OTHER -> 0
TempLevels == {Layout[i] : i \in 1..Len(Layout)} \cap Temporal
Finest == IF TempLevels = {} THEN "none"
          ELSE CHOOSE l \in TempLevels : \A m \in TempLevels : Rank(m) <= Rank(l)

Trunc(x, l) == Max({b \in B[l] : b <= x})
NextB(x, l) == Min({b \in B[l] : b > x})

FileShapes == {<<a, b>> \in (0..T-1) \X (0..T-1) : a <= b /\ b - a <= MaxDur}
Candidates == {[id |-> 100 * sh[1] + 10 * sh[2] + tg, t0 |-> sh[1], t1 |-> sh[2], tag |-> tg] :
                  sh \in FileShapes, tg \in Tags}
\* precondition of the property: no longer than one period of the finest directory level
PreFile(f) == Finest = "none" \/ f.t1 - f.t0 <= NextB(f.t0, Finest) - Trunc(f.t0, Finest)
Pool == IF UsePre THEN {f \in Candidates : PreFile(f)} ELSE Candidates
Populations == CASE MaxFiles = 1 -> {{a} : a \in Pool}
                 [] MaxFiles = 2 -> {{a, b} : a \in Pool, b \in Pool}
                 [] MaxFiles = 3 -> {{a, b, c} : a \in Pool, b \in Pool, c \in Pool}
                 [] OTHER -> {{a, b, c, d} : a \in Pool, b \in Pool, c \in Pool, d \in Pool}

Queries == {[s |-> s, e |-> e, xnames |-> {}, xperiods |-> {}, white |-> w, black |-> {}] :
               s \in {MinT} \cup (0..T), e \in (1..T) \cup {MaxT}, w \in {{}} \cup {{t} : t \in Tags}}

\* directory of a file: one component per level
DirOf(f) == [i \in 1..Len(Layout) |->
               IF Layout[i] = "tag" THEN f.tag ELSE Trunc(f.t0, Layout[i])]
Prefix(d, n) == [i \in 1..n |-> d[i]]

VARIABLES F, q, lvl, dirs, out, pc
vars == <<F, q, lvl, dirs, out, pc>>

Init == /\ F \in Populations
        /\ q \in {qq \in Queries : qq.s < qq.e}
        /\ lvl = 0
        /\ dirs = {<<>>}
        /\ out = {}
        /\ pc = "walk"

\* end -= 1us : on the tick line the closed end of the query is "just below e"; a directory
\* block start b satisfies  b <= trunc(e - eps)  iff  b < e.
DirStart == IF Finest = "none" \/ q.s = MinT THEN q.s ELSE q.s - Span[Finest]

\* which date fields are known once level i has been parsed
Known(i) == {Layout[j] : j \in 1..i} \cap Temporal
\* datetime(**attrs) succeeds iff year, month and day are known; a {doy} directory supplies
\* month and day at once, so "day known" implies "month known" in every layout we admit.
FullDateAt(i) == {"year", "day"} \subseteq Known(i)

Check(i, d) ==
    IF i = 0 THEN TRUE ELSE
    LET l == Layout[i] IN
    IF l = "tag" THEN q.white = {} \/ d[i] \in q.white       \* white list is part of the dir regex
    ELSE IF "year" \notin Known(i) THEN TRUE                 \* no year parsed: nothing is checked
    ELSE IF FullDateAt(i)
         THEN d[i] >= Trunc(DirStart, l) /\ d[i] < q.e       \* full comparison at this level
         ELSE LET y == CHOOSE j \in 1..i : Layout[j] = "year"
              IN d[y] >= Trunc(DirStart, "year") /\ d[y] < q.e   \* year-only fallback

Descend == /\ pc = "walk" /\ lvl < Len(Layout)
           /\ lvl = 0 \/ \A d \in dirs : Check(lvl, d)     \* the code filters a level before descending
           /\ lvl' = lvl + 1
           /\ dirs' = {Prefix(DirOf(f), lvl + 1) : f \in {g \in F : Prefix(DirOf(g), lvl) \in dirs}}
           /\ UNCHANGED <<F, q, out, pc>>

Prune == /\ pc = "walk" /\ lvl >= 1 /\ \E d \in dirs : ~Check(lvl, d)
         /\ dirs' = {d \in dirs : Check(lvl, d)}
         /\ UNCHANGED <<F, q, lvl, out, pc>>

Scan == /\ pc = "walk" /\ lvl = Len(Layout) /\ (lvl = 0 \/ \A d \in dirs : Check(lvl, d))
        /\ out' = {f \in F : /\ DirOf(f) \in dirs
                             /\ Overlap(f, q.s, q.e) /\ Admitted(f, q)}
        /\ pc' = "done"
        /\ UNCHANGED <<F, q, lvl, dirs>>

Next == Descend \/ Prune \/ Scan
Spec == Init /\ [][Next]_vars

DesignRefinesProps == pc = "done" => out = FindSpec(F, q)
=============================================================================
