----------------------------- MODULE NameCases ------------------------------
(* C02 -- model check of the naming rules on a boundary catalogue + generator *)
(* of replay cases.  One state per (template, start); the rows carry the ends. *)
EXTENDS NameProps, Json, Sequences

CONSTANT Stride     \* 1: all cases are printed; n: every n-th state (quick tier)

DateStyles == {"ymd", "y2md", "ydoy", "y2doy"}
PartialEnds(nt) == {P \in SUBSET {TimeFields[i] : i \in 1..nt} :
                       P # {} /\ Coarsest(P) \in {"hour", "minute", "second"}}
Templates == {[date |-> ds, nt |-> n, ek |-> en, ep |-> {}] :
                 ds \in DateStyles, n \in 0..4, en \in {"none", "full"}}
             \cup UNION {{[date |-> ds, nt |-> n, ek |-> "partial", ep |-> P] : P \in PartialEnds(n)} :
                            ds \in {"ymd", "y2doy"}, n \in 1..4}

             \* start and end date spelled differently
             \cup {r \in {[date |-> ds, edate |-> es, nt |-> n, ek |-> "full", ep |-> {}] :
                              ds \in DateStyles, es \in DateStyles, n \in {0, 2}} : r.date # r.edate}

Dates == {<<2000, 2, 28>>, <<2000, 2, 29>>, <<2000, 3, 1>>, <<2100, 2, 28>>, <<2100, 3, 1>>, <<2020, 2, 29>>,
          <<2021, 2, 28>>, <<2019, 12, 31>>, <<2020, 12, 31>>, <<2021, 1, 1>>, <<1965, 1, 1>>, <<2064, 12, 31>>,
          <<1999, 12, 31>>, <<1000, 1, 1>>, <<9999, 12, 30>>, <<2024, 7, 4>>}
Clock == {<<0, 0, 0, 0>>, <<23, 59, 59, 999>>, <<12, 34, 56, 789>>, <<23, 50, 0, 0>>, <<9, 5, 7, 10>>}
Starts == {d \o c : d \in Dates, c \in Clock}
InRange(tpl, t) == IF tpl.date \in {"y2md", "y2doy"} \/ EDate(tpl) \in {"y2md", "y2doy"} THEN t[1] \in 1965..2064 ELSE t[1] \in 1000..9999

\* end candidates: same instant, one unit later at each level, just before the next day,
\* and the instant "23:59:59.999 later" family that makes partial ends roll over
Pred1(t) == IF t[7] > 0 THEN [t EXCEPT ![7] = @ - 1] ELSE t
Ends(s) == {s, SuccSecond(s), SuccMinute(s), SuccHour(s), SuccDay(s), Pred1(SuccDay(s)), Pred1(SuccHour(s)),
            Pred1(SuccMinute(s)), SuccDay(SuccDay(s)),
            [SuccMinute(s) EXCEPT ![6] = 0, ![7] = 0], [SuccHour(s) EXCEPT ![5] = 0, ![6] = 0, ![7] = 0]}

VARIABLES tpl, s
Init == tpl \in Templates /\ s \in {x \in Starts : InRange(tpl, x)}
Next == UNCHANGED <<tpl, s>>

GoodEnds == {e \in Ends(s) : InRange(tpl, e) /\ ValidTime(e) /\ AtMost(TruncTo(s, tpl.nt), TruncTo(e, tpl.nt))}

\* ---- invariants (the model-level theorems) ---------------------------------
CalendarInv == /\ ValidTime(s)
               /\ FromDoy(s[1], Doy(s[1], s[2], s[3])) = <<s[2], s[3]>>
               /\ Doy(s[1], s[2], s[3]) \in 1..DaysInYear(s[1])
               /\ (s[1] \in 1965..2064 => FromYear2(Year2(s[1])) = s[1])
RoundTripInv == RoundTripStart(tpl, s) /\ \A e \in GoodEnds : RoundTripEnd(tpl, s, e)
PartialInv == \A e \in GoodEnds : PartialEndSound(tpl, s, e) /\ PartialEndExact(tpl, s, e)
SuccInv == /\ Before(s, SuccSecond(s)) /\ Before(s, SuccDay(s))
           /\ SecondsSince(SuccDay(s), s[1]) - SecondsSince(s, s[1]) = 86400
           /\ SecondsSince(SuccHour(s), s[1]) - SecondsSince(s, s[1]) = 3600
           /\ SecondsSince(SuccSecond(s), s[1]) - SecondsSince(s, s[1]) = 1

\* ---- generator ---------------------------------------------------------------
RECURSIVE SetToSeq(_)
SetToSeq(X) == IF X = {} THEN <<>> ELSE LET x == CHOOSE y \in X : TRUE IN <<x>> \o SetToSeq(X \ {x})
EndRepr(x) == IF x = <<>> THEN <<0>> ELSE x
Emit == (TLCGet("distinct") % Stride # 0) \/ PrintT(<<"CASE", ToJson([
           tpl |-> [date |-> tpl.date, edate |-> EDate(tpl), nt |-> tpl.nt,
                    ek |-> tpl.ek, ep |-> SetToSeq(tpl.ep)],
           s |-> s,
           start |-> StartOf(tpl, s),
           cov |-> [none |-> StartOf(tpl, s), hour |-> SuccHour(StartOf(tpl, s)), day |-> SuccDay(StartOf(tpl, s))],
           rows |-> {<<e, Fields(tpl, s, e), EndRepr(EndOf(tpl, s, e))>> : e \in GoodEnds}])>>)
=============================================================================
