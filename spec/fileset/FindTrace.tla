----------------------------- MODULE FindTrace ------------------------------
(* C01 / C16 / C03(match) -- trace validation of recorded FileSet sessions.   *)
(* One ndjson line per session:                                               *)
(*   {tid, F: [[id,t0,t1,tag],..], G: [[id,t0,t1,tag],..], calls: [..]}        *)
(* Every call record carries op, its abstract arguments, ok (FALSE when the   *)
(* call raised something other than the permitted NoFilesError) and the       *)
(* projected result.  Times are integer ticks of the session's embedding;     *)
(* "in"/"closest" use half ticks against the doubled population.              *)
EXTENDS FindProps, TLC, Json, IOUtils

Traces == ndJsonDeserialize(IOEnv.TRACE_FILE)

Files(rows) == {[id |-> r[1], t0 |-> r[2], t1 |-> r[3], tag |-> r[4]] : r \in SeqRange(rows)}
Scale2(F) == {[f EXCEPT !.t0 = 2 * f.t0, !.t1 = 2 * f.t1] : f \in F}
Known(F, ids) == \A k \in 1..Len(ids) : \E f \in F : f.id = ids[k]
Rec(F, ids) == [k \in 1..Len(ids) |-> CHOOSE f \in F : f.id = ids[k]]
Q(c) == [s |-> c.s, e |-> c.e, xnames |-> SeqRange(c.xn),
         xperiods |-> {<<p[1], p[2]>> : p \in SeqRange(c.xp)},
         white |-> SeqRange(c.white), black |-> SeqRange(c.black)]
\* the same query against the doubled (half-tick) line
Q2(c) == [Q(c) EXCEPT !.xperiods = {<<2 * p[1], 2 * p[2]>> : p \in @}]
Flat(bs) == Flatten(bs)

CallOK(F, G, c) ==
    c.ok /\
    CASE c.op = "find"     -> Known(F, c.out) /\ FindOK(F, Q(c), c.sorted, Rec(F, c.out))
      [] c.op = "bundle_n" -> Known(F, Flat(c.out)) /\
                              BundleCountOK(F, Q(c), c.n, [k \in 1..Len(c.out) |-> Rec(F, c.out[k])])
      [] c.op = "bundle_w" -> Known(F, Flat(c.out)) /\
                              BundleFreqOK(F, Q(c), c.w, [k \in 1..Len(c.out) |-> Rec(F, c.out[k])])
      [] c.op = "in"       -> c.r = ContainsSpec(Scale2(F), Q2(c), c.h)
      [] c.op = "len"      -> c.r = LenSpec(F, Q(c))
      [] c.op = "closest"  -> \/ ClosestOK(Scale2(F), Q2(c), c.h, c.R2, c.r)
                              \* a closed neighbourhood is an equally valid reading of "within one period"
                              \/ (c.R2 >= 0 /\ ClosestOK(Scale2(F), Q2(c), c.h, c.R2 + 1, c.r))
      [] c.op = "match"    -> /\ \A k \in 1..Len(c.out) : Known(F, <<c.out[k][1]>>) /\ Known(G, c.out[k][2])
                              /\ MatchOK(F, G, c.s, c.e, c.I,
                                         [k \in 1..Len(c.out) |-> <<Rec(F, <<c.out[k][1]>>)[1], Rec(G, c.out[k][2])>>])
      [] OTHER -> FALSE

VARIABLE t
Init == t \in 1..Len(Traces)
Next == UNCHANGED t

FirstBad(tr) == LET F == Files(tr.F) G == Files(tr.G)
                    bad == {k \in 1..Len(tr.calls) : ~CallOK(F, G, tr.calls[k])}
                IN IF bad = {} THEN 0 ELSE CHOOSE k \in bad : \A j \in bad : k <= j
Verdict == LET tr == Traces[t] b == FirstBad(tr)
           IN IF b = 0 THEN PrintT(<<"ACCEPT", tr.tid>>) ELSE PrintT(<<"REJECT", tr.tid, b>>)
=============================================================================
