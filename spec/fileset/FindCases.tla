----------------------------- MODULE FindCases ------------------------------
(* C01 / C16 -- test generator.  One state per file population; for every     *)
(* query of the bound the oracle answers of FindProps are printed with it.    *)
EXTENDS FindProps, TLC, Json, Randomization

CONSTANTS T, Tags, MaxFiles, MaxDur,
          NSample,      \* 0: all populations, else a random sample of that many
          MinT, MaxT,
          R             \* one sub-directory period in ticks (C16), -1: none

FileShapes == {<<a, b>> \in (0..T-1) \X (0..T-1) : a <= b /\ b - a <= MaxDur}
Pool == {[id |-> 100 * sh[1] + 10 * sh[2] + tg, t0 |-> sh[1], t1 |-> sh[2], tag |-> tg] :
            sh \in FileShapes, tg \in Tags}
Populations == CASE MaxFiles = 1 -> {{a} : a \in Pool}
                 [] MaxFiles = 2 -> {{a, b} : a \in Pool, b \in Pool}
                 [] MaxFiles = 3 -> {{a, b, c} : a \in Pool, b \in Pool, c \in Pool}
                 [] OTHER -> {{a, b, c, d} : a \in Pool, b \in Pool, c \in Pool, d \in Pool}

Periods == {<<s, e>> \in ({MinT} \cup (0..T)) \X ((1..T) \cup {MaxT}) : s < e}
Q0 == [s |-> MinT, e |-> MaxT, xnames |-> {}, xperiods |-> {}, white |-> {}, black |-> {}]
FilterVariants == {<<{}, {}>>} \cup {<<{t}, {}>> : t \in Tags} \cup {<<{}, {t}>> : t \in Tags}
                  \cup {<<Tags, {}>>}
XPeriods == {<<a, b>> \in (0..T-1) \X (0..T-1) : a <= b}

\* two exclusion periods that overlap or abut, staggered (the one that starts earlier also ends earlier): they share nodes of
\* the interval tree behind exclude_times, and a file may be covered by the later one only
XPairs == {{<<a, b>>, <<c, T - 1>>} : a \in 0..T-2, b \in 0..T-2, c \in 1..T-1} 
XStaggered == {P \in XPairs : \E x \in P, y \in P : x[1] < y[1] /\ x[2] >= x[1] /\ x[2] - x[1] <= 2 /\ y[1] <= x[2] + 1 /\ x[2] < y[2]}

Queries(F) ==
       {[Q0 EXCEPT !.s = p[1], !.e = p[2], !.white = v[1], !.black = v[2]] : p \in Periods, v \in FilterVariants}
  \cup {[Q0 EXCEPT !.xperiods = {x}] : x \in XPeriods}
  \cup {[Q0 EXCEPT !.xperiods = P] : P \in XStaggered}
  \cup {[Q0 EXCEPT !.xnames = {f.id}] : f \in F}
  \cup {[Q0 EXCEPT !.xnames = {f.id}, !.xperiods = {x}, !.s = 1, !.e = T - 1] : f \in F, x \in {<<0, 0>>, <<T-1, T-1>>}}

Ids(S) == {f.id : f \in S}
Scale2(F) == {[f EXCEPT !.t0 = 2 * f.t0, !.t1 = 2 * f.t1] : f \in F}

VARIABLE F
\* sampling: populations of three or four files are drawn as the union of two smaller populations (the full set of
\* populations exceeds what TLC can enumerate for T = 12: 108^3 > 10^6)
Pop1 == {{a} : a \in Pool}
Pop2 == {{a, b} : a \in Pool, b \in Pool}
Root == CHOOSE r \in 1..2000 : r * r >= NSample /\ (r - 1) * (r - 1) < NSample
Sampled == IF MaxFiles <= 2 THEN RandomSubset(NSample, Populations)
           ELSE {x \cup y : x \in RandomSubset(Root, Pop2), y \in RandomSubset(Root, IF MaxFiles = 3 THEN Pop1 ELSE Pop2)}
Init == F \in (IF NSample = 0 THEN Populations ELSE Sampled)
Next == UNCHANGED F

Emit == PrintT(<<"CASE", ToJson([
          F    |-> {<<f.id, f.t0, f.t1, f.tag>> : f \in F},
          qs   |-> {<<qq.s, qq.e, qq.xnames, qq.xperiods, qq.white, qq.black, Ids(FindSpec(F, qq))>> : qq \in Queries(F)},
          cont |-> {<<h, ContainsSpec(Scale2(F), Q0, h)>> : h \in 0..2*T},
          len  |-> LenSpec(F, Q0),
          \* C16: admissible answers of find_closest at every half tick (0 = none / NoFilesError);
          \* R is given in ticks, the scaled line uses half ticks
          close |-> {<<h, IF Hood(Scale2(F), Q0, h, 2*R) = {} THEN {0}
                          ELSE IF Covering(Scale2(F), Q0, h, 2*R) # {} THEN Ids(Covering(Scale2(F), Q0, h, 2*R))
                          ELSE Ids(Nearest(Scale2(F), Q0, h, 2*R))>> : h \in 0..2*T}
       ])>>)
=============================================================================
